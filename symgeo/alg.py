"""Exact symbolic scalars for SymGeo.

Poly   sparse Laurent polynomial over Q in the variables of the current path
Alg    element of Q(x1..xn)(t1)(t2)... : num/den in a radical-reducing normal form
Cx     complex number as a pair of Alg
SymBool  symbolic truth value (z3 Bool); bool() forks the execution

The normal form is part of the encoder (like z3's simplifier is part of z3): it
is sound (every rewrite is an identity of the real closed field under the
definitions recorded in the path state) and deliberately not trusted to be
complete: non-trivial residuals always go to the solver.
"""
from __future__ import annotations

import numbers
import operator
from fractions import Fraction

import numpy as _np
import z3

from . import state
from .state import UnsupportedSymbolic, PathAbort, cur

# --------------------------------------------------------------------------- numbers


def _q(c):
    """exact rational from a python/numpy real constant (ints stay ints)"""
    if isinstance(c, (bool, _np.bool_)):
        return int(c)
    if isinstance(c, (int, _np.integer)):
        return int(c)
    if isinstance(c, Fraction):
        return c.numerator if c.denominator == 1 else c
    if isinstance(c, (float, _np.floating)):
        f = float(c)
        if f != f or f in (float("inf"), float("-inf")):
            raise ValueError("non-finite constant")
        if f.is_integer():
            return int(f)
        return Fraction(f)
    raise TypeError(f"not a real constant: {type(c)}")


def _nf(c):
    if isinstance(c, Fraction) and c.denominator == 1:
        return c.numerator
    return c


def _cdiv(a, b):
    if isinstance(a, int) and isinstance(b, int):
        if a % b == 0:
            return a // b
        return Fraction(a, b)
    return _nf(Fraction(a) / Fraction(b))


# --------------------------------------------------------------------------- monomials

def mmul(a, b):
    if not a:
        return b
    if not b:
        return a
    i = j = 0
    la, lb = len(a), len(b)
    out = []
    while i < la and j < lb:
        va, ea = a[i]
        vb, eb = b[j]
        if va == vb:
            e = ea + eb
            if e:
                out.append((va, e))
            i += 1
            j += 1
        elif va < vb:
            out.append(a[i])
            i += 1
        else:
            out.append(b[j])
            j += 1
    if i < la:
        out.extend(a[i:])
    if j < lb:
        out.extend(b[j:])
    return tuple(out)


def minv(a):
    return tuple((v, -e) for v, e in a)


def mpow(a, k):
    return tuple((v, e * k) for v, e in a)


def mkey(m):
    return (sum(e for _, e in m), m)


class Poly:
    __slots__ = ("t", "_key")

    def __init__(self, t=None):
        self.t = t if t is not None else {}
        self._key = None

    # constructors
    @staticmethod
    def const(c):
        c = _q(c)
        return Poly({(): c} if c else {})

    @staticmethod
    def var(vid, e=1):
        return Poly({((vid, e),): 1})

    # predicates
    def is_zero(self):
        return not self.t

    def is_const(self):
        return not self.t or (len(self.t) == 1 and () in self.t)

    def cval(self):
        return self.t.get((), 0)

    def is_one(self):
        return len(self.t) == 1 and self.t.get(()) == 1

    def single_term(self):
        if len(self.t) == 1:
            return next(iter(self.t.items()))
        return None

    def key(self):
        if self._key is None:
            self._key = frozenset(self.t.items())
        return self._key

    def __eq__(self, o):
        return self.t == o.t

    def __hash__(self):
        return hash(self.key())

    def __len__(self):
        return len(self.t)

    def vars(self):
        s = set()
        for m in self.t:
            for v, _ in m:
                s.add(v)
        return s

    def has_neg(self):
        for m in self.t:
            for _, e in m:
                if e < 0:
                    return True
        return False

    # arithmetic
    def __add__(self, o):
        if not o.t:
            return self
        if not self.t:
            return o
        if len(self.t) < len(o.t):
            self, o = o, self
        r = dict(self.t)
        for k, c in o.t.items():
            n = r.get(k, 0) + c
            if n:
                r[k] = n
            else:
                r.pop(k, None)
        return Poly(r)

    def __neg__(self):
        return Poly({k: -c for k, c in self.t.items()})

    def __sub__(self, o):
        if not o.t:
            return self
        r = dict(self.t)
        for k, c in o.t.items():
            n = r.get(k, 0) - c
            if n:
                r[k] = n
            else:
                r.pop(k, None)
        return Poly(r)

    def scale(self, c):
        if c == 1:
            return self
        if not c:
            return Poly()
        return Poly({k: _nf(v * c) for k, v in self.t.items()})

    def mulmono(self, m, c=1):
        if not m and c == 1:
            return self
        return Poly({mmul(k, m): _nf(v * c) for k, v in self.t.items()})

    def __mul__(self, o):
        a, b = self.t, o.t
        if not a or not b:
            return Poly()
        if len(a) > len(b):
            a, b = b, a
        if len(a) == 1:
            (m, c), = a.items()
            r = Poly(b).mulmono(m, c) if (m or c != 1) else Poly(b)
        else:
            d = {}
            get = d.get
            for k1, c1 in a.items():
                for k2, c2 in b.items():
                    k = mmul(k1, k2)
                    n = get(k, 0) + c1 * c2
                    if n:
                        d[k] = n
                    else:
                        d.pop(k, None)
            r = Poly(d)
        P = state.CUR
        if P is not None and P.rules:
            r = reduce_poly(r)
        return r

    def __pow__(self, k):
        k = int(k)
        if k < 0:
            raise ValueError
        r = Poly.const(1)
        b = self
        while k:
            if k & 1:
                r = r * b
            k >>= 1
            if k:
                b = b * b
        return r

    def normalized(self):
        """fractions with denominator 1 -> ints"""
        return Poly({k: _nf(c) for k, c in self.t.items()})

    # Laurent content
    def mono_content(self):
        """monomial g (possibly with negative exps) such that self = g * p', p' has exps >= 0 and no common monomial"""
        it = iter(self.t)
        try:
            first = next(it)
        except StopIteration:
            return ()
        mins = dict(first)
        for m in it:
            dm = dict(m)
            for v in list(mins):
                e = dm.get(v, 0)
                if e < mins[v]:
                    mins[v] = e
            for v, e in dm.items():
                if v not in mins and e < 0:
                    mins[v] = e
                elif v not in mins:
                    pass
            # variables in mins but absent in dm handled above (e = 0)
        # variables that do not appear in `first` but appear negatively elsewhere were added; those appearing
        # only positively elsewhere have min 0 (because absent in first)
        return tuple(sorted((v, e) for v, e in mins.items() if e))

    def clear_neg(self):
        """(p', g) with p' = self * g, g a monomial with positive exponents, p' without negative exponents"""
        neg = {}
        for m in self.t:
            for v, e in m:
                if e < 0 and -e > neg.get(v, 0):
                    neg[v] = -e
        if not neg:
            return self, ()
        g = tuple(sorted(neg.items()))
        return self.mulmono(g), g

    def lead(self):
        m = max(self.t, key=mkey)
        return m, self.t[m]

    def __repr__(self):
        P = state.CUR
        def nm(v):
            return P.vars[v].name if P is not None and v < len(P.vars) else f"v{v}"
        if not self.t:
            return "0"
        parts = []
        for k, c in sorted(self.t.items(), key=lambda kc: mkey(kc[0]), reverse=True)[:40]:
            mon = "*".join(nm(v) + (f"^{e}" if e != 1 else "") for v, e in k)
            parts.append(f"{c}" + ("*" + mon if mon else ""))
        s = " + ".join(parts)
        if len(self.t) > 40:
            s += f" + ...({len(self.t)} terms)"
        return s

    # z3
    def z3(self):
        P = cur()
        if not self.t:
            return z3.RealVal(0)
        terms = []
        for k, c in sorted(self.t.items(), key=lambda kc: mkey(kc[0])):
            fs = []
            for v, e in k:
                if e < 0:
                    raise ValueError("negative exponent reaches solver")
                zv = P.vars[v].z
                if zv.sort() == z3.IntSort():
                    zv = z3.ToReal(zv)
                fs.extend([zv] * e)
            if c != 1 or not fs:
                fs.insert(0, z3.RealVal(str(c)))
            t = fs[0]
            for x in fs[1:]:
                t = t * x
            terms.append(t)
        return terms[0] if len(terms) == 1 else z3.Sum(terms)

    def evalf(self, env):
        """numeric evaluation; env: vid -> Fraction/float"""
        tot = 0
        for k, c in self.t.items():
            t = c
            for v, e in k:
                t = t * env[v] ** e
            tot += t
        return tot


ONE = Poly.const(1)
ZERO = Poly()


def reduce_poly(p):
    rules = state.CUR.rules
    need = False
    for m in p.t:
        for v, e in m:
            r = rules.get(v)
            if r is not None and e >= r[0]:
                need = True
                break
        if need:
            break
    if not need:
        return p
    out = {}
    work = list(p.t.items())
    powcache = {}
    while work:
        m, c = work.pop()
        hit = None
        for idx in range(len(m) - 1, -1, -1):
            v, e = m[idx]
            r = rules.get(v)
            if r is not None and e >= r[0]:
                hit = (idx, v, e, r)
                break
        if hit is None:
            n = out.get(m, 0) + c
            if n:
                out[m] = n
            else:
                out.pop(m, None)
            continue
        idx, v, e, (k, R) = hit
        if callable(R):
            # lazily computed right-hand side (e.g. the square of |x| is only expanded when it is really needed)
            saved = dict(rules)
            rules.pop(v, None)
            try:
                R = R()
            finally:
                rules.update(saved)
            rules[v] = (k, R)
        q, rem = divmod(e, k)
        base = m[:idx] + (((v, rem),) if rem else ()) + m[idx + 1:]
        Rq = powcache.get((v, q))
        if Rq is None:
            Rq = R ** q if q > 1 else R
            powcache[(v, q)] = Rq
        for m2, c2 in Rq.t.items():
            work.append((mmul(base, m2), c * c2))
    return Poly({k: _nf(c) for k, c in out.items()})


def divexact(p, d, limit=200000):
    """p / d if d divides p exactly (both without negative exponents), else None"""
    if not d.t:
        return None
    if not p.t:
        return Poly()
    st = d.single_term()
    if st is not None:
        m, c = st
        mi = minv(m)
        r = {}
        for k, v in p.t.items():
            kk = mmul(k, mi)
            for _, e in kk:
                if e < 0:
                    return None
            r[kk] = _cdiv(v, c)
        return Poly(r)
    if len(p.t) * len(d.t) > limit or len(p.t) < len(d.t) and False:
        return None
    lm, lc = d.lead()
    lmi = minv(lm)
    q = {}
    r = dict(p.t)
    steps = 0
    ditems = list(d.t.items())
    while r:
        steps += 1
        if steps > 20000:
            return None
        m = max(r, key=mkey)
        c = r[m]
        qm = mmul(m, lmi)
        for _, e in qm:
            if e < 0:
                return None
        qc = _cdiv(c, lc)
        q[qm] = qc
        for dm, dc in ditems:
            mm = mmul(qm, dm)
            nv = r.get(mm, 0) - qc * dc
            if nv:
                r[mm] = nv
            else:
                r.pop(mm, None)
    return Poly(q)


def poly_sqrt(p):
    """q with q*q == p (as polynomials, before rule reduction) or None.  p without negative exponents."""
    if not p.t:
        return Poly()
    lm, lc = p.lead()
    for _, e in lm:
        if e % 2:
            return None
    # rational square root of the coefficient
    fc = Fraction(lc)
    if fc <= 0:
        return None
    import math
    rn, rd = math.isqrt(fc.numerator), math.isqrt(fc.denominator)
    if rn * rn != fc.numerator or rd * rd != fc.denominator:
        return None
    q0m = tuple((v, e // 2) for v, e in lm)
    q0c = _nf(Fraction(rn, rd))
    q = {q0m: q0c}
    # r = p - q0^2
    r = dict(p.t)
    r.pop(lm)
    q0inv = minv(q0m)
    steps = 0
    while r:
        steps += 1
        if steps > 500:
            return None
        m = max(r, key=mkey)
        c = r[m]
        tm = mmul(m, q0inv)
        for _, e in tm:
            if e < 0:
                return None
        tc = _cdiv(c, 2 * q0c)
        # r -= t*(2q + t)
        for qm, qc in list(q.items()):
            mm = mmul(tm, qm)
            nv = r.get(mm, 0) - 2 * tc * qc
            if nv:
                r[mm] = nv
            else:
                r.pop(mm, None)
        mm = mmul(tm, tm)
        nv = r.get(mm, 0) - tc * tc
        if nv:
            r[mm] = nv
        else:
            r.pop(mm, None)
        if tm in q:
            return None
        q[tm] = tc
        if mkey(tm) >= mkey(q0m):
            return None
    return Poly(q)


# --------------------------------------------------------------------------- symbolic booleans

class SymBool:
    __slots__ = ("e", "val")
    __array_priority__ = 2000

    def __init__(self, e, val=None):
        if val is None:
            if z3.is_true(e):
                val = True
            elif z3.is_false(e):
                val = False
        self.e = e
        self.val = val

    @staticmethod
    def of(o):
        if isinstance(o, SymBool):
            return o
        if isinstance(o, (bool, _np.bool_)):
            return TRUE if o else FALSE
        if isinstance(o, (int, _np.integer)):
            return TRUE if o else FALSE
        if isinstance(o, Alg):
            return o != 0
        raise TypeError(f"cannot make SymBool of {type(o)}")

    def __bool__(self):
        if self.val is not None:
            return self.val
        return decide(self.e)

    def __invert__(self):
        if self.val is not None:
            return FALSE if self.val else TRUE
        return SymBool(z3.Not(self.e))

    def __and__(self, o):
        try:
            o = SymBool.of(o)
        except TypeError:
            return NotImplemented
        if self.val is not None:
            return o if self.val else FALSE
        if o.val is not None:
            return self if o.val else FALSE
        return SymBool(z3.And(self.e, o.e))

    def __or__(self, o):
        try:
            o = SymBool.of(o)
        except TypeError:
            return NotImplemented
        if self.val is not None:
            return TRUE if self.val else o
        if o.val is not None:
            return TRUE if o.val else self
        return SymBool(z3.Or(self.e, o.e))

    def __xor__(self, o):
        try:
            o = SymBool.of(o)
        except TypeError:
            return NotImplemented
        if self.val is not None:
            return ~o if self.val else o
        if o.val is not None:
            return ~self if o.val else self
        return SymBool(z3.Xor(self.e, o.e))

    __rand__ = __and__
    __ror__ = __or__
    __rxor__ = __xor__

    def __eq__(self, o):
        try:
            o = SymBool.of(o)
        except TypeError:
            return NotImplemented
        return ~(self ^ o)

    def __ne__(self, o):
        try:
            o = SymBool.of(o)
        except TypeError:
            return NotImplemented
        return self ^ o

    def __hash__(self):
        return id(self)

    def implies(self, o):
        return (~self) | SymBool.of(o)

    # numeric view (bool arrays get summed / multiplied)
    def as_alg(self):
        if self.val is not None:
            return Alg.const(1 if self.val else 0)
        return ite(self, Alg.const(1), Alg.const(0))

    def __add__(self, o):
        return BoolCount([self]) + o

    __radd__ = __add__

    def __mul__(self, o):
        if isinstance(o, (SymBool, bool, _np.bool_)):
            return self & o
        return self.as_alg() * o

    __rmul__ = __mul__

    def __neg__(self):
        return -self.as_alg()

    def __float__(self):
        if self.val is None:
            raise UnsupportedSymbolic("float() of symbolic bool")
        return float(self.val)

    def __int__(self):
        if self.val is None:
            raise UnsupportedSymbolic("int() of symbolic bool")
        return int(self.val)

    __index__ = __int__

    dtype = _np.dtype(bool)
    ndim = 0
    shape = ()

    def __repr__(self):
        return f"SymBool({self.val if self.val is not None else self.e})"


TRUE = SymBool(z3.BoolVal(True), True)
FALSE = SymBool(z3.BoolVal(False), False)


class BoolCount:
    """number of true values among symbolic booleans (np.sum over a bool array); supports % 2 and comparisons with ints"""
    __slots__ = ("items", "base")

    def __init__(self, items, base=0):
        self.items = []
        self.base = base
        for b in items:
            if b.val is None:
                self.items.append(b)
            elif b.val:
                self.base += 1

    def __add__(self, o):
        if isinstance(o, BoolCount):
            return BoolCount(self.items + o.items, self.base + o.base)
        if isinstance(o, SymBool):
            if o.val is not None:
                return BoolCount(self.items, self.base + int(o.val))
            return BoolCount(self.items + [o], self.base)
        if isinstance(o, (bool, _np.bool_, int, _np.integer)):
            return BoolCount(self.items, self.base + int(o))
        return NotImplemented

    __radd__ = __add__

    def __mod__(self, k):
        if k != 2:
            raise UnsupportedSymbolic("BoolCount % k only for k = 2")
        r = TRUE if self.base % 2 else FALSE
        for b in self.items:
            r = r ^ b
        return _Parity(r)

    def z3(self):
        return z3.Sum([z3.If(b.e, 1, 0) for b in self.items]) + self.base if self.items else z3.IntVal(self.base)

    def _cmp(self, o, op):
        if isinstance(o, BoolCount):
            return SymBool(z3.simplify(op(self.z3(), o.z3())))
        return SymBool(z3.simplify(op(self.z3(), z3.IntVal(int(o)))))

    def __eq__(self, o):
        return self._cmp(o, operator.eq)

    def __ne__(self, o):
        return self._cmp(o, operator.ne)

    def __lt__(self, o):
        return self._cmp(o, operator.lt)

    def __le__(self, o):
        return self._cmp(o, operator.le)

    def __gt__(self, o):
        return self._cmp(o, operator.gt)

    def __ge__(self, o):
        return self._cmp(o, operator.ge)

    def __hash__(self):
        return id(self)

    def __int__(self):
        if self.items:
            raise UnsupportedSymbolic("int() of symbolic count")
        return self.base

    __index__ = __int__
    dtype = _np.dtype(int)
    ndim = 0
    shape = ()


class _Parity:
    """result of BoolCount % 2: compares with 0/1"""
    __slots__ = ("odd",)

    def __init__(self, odd):
        self.odd = odd

    def __eq__(self, o):
        o = int(o)
        if o == 1:
            return self.odd
        if o == 0:
            return ~self.odd
        return FALSE

    def __ne__(self, o):
        return ~(self == o)

    def __hash__(self):
        return id(self)

    dtype = _np.dtype(int)
    ndim = 0
    shape = ()


numbers.Number.register(BoolCount)
numbers.Number.register(_Parity)

# --------------------------------------------------------------------------- decisions (forks)

SOLVER_STATS = {"queries": 0, "time": 0.0, "fork_queries": 0, "fork_time": 0.0}
FORK_TIMEOUT_MS = 400


def _quick_feasible(P, extra):
    import time
    s = z3.Solver()
    s.set("timeout", FORK_TIMEOUT_MS)
    s.set("rlimit", 2000000)
    for c in P.constraints(0):
        s.add(c)
    s.add(extra)
    t = time.time()
    r = s.check()
    SOLVER_STATS["fork_queries"] += 1
    SOLVER_STATS["fork_time"] += time.time() - t
    return r != z3.unsat


MAX_FORKS_PER_PATH = 400


def decide(expr):
    """Concrete truth value for a symbolic condition on the current path (forks on first visit)."""
    P = cur()
    if z3.is_true(expr):
        return True
    if z3.is_false(expr):
        return False
    tier2 = P.tier2_depth > 0
    memo = P.__dict__.setdefault("_decided", {})
    hk = expr.hash()
    if hk in memo and z3.eq(memo[hk][0], expr):
        return memo[hk][1]
    if P.pos < len(P.decisions):
        d = P.decisions[P.pos]
        P.pos += 1
    else:
        P.forks += 1
        if P.forks > MAX_FORKS_PER_PATH:
            raise PathAbort("fork budget per path exceeded")
        if tier2:
            # ordering forks (argmax): both sides are explored without a solver call; an infeasible side only yields
            # vacuous obligations (over-approximation is sound)
            ft = ff = True
        else:
            ft = _quick_feasible(P, expr)
            ff = _quick_feasible(P, z3.Not(expr))
        if ft and ff:
            d = True
            P.pending.append(list(P.decisions) + [False])
        elif ft:
            d = True
        elif ff:
            d = False
        else:
            raise PathAbort("infeasible path (both sides unsat)")
        P.decisions.append(d)
        P.pos += 1
    c = expr if d else z3.Not(expr)
    (P.order_conds if tier2 else P.conds).append(c)
    memo[hk] = (expr, d)
    return d


def decide_index(options):
    """1-of-N fork: options is a list of SymBool, exactly one of which holds; returns the index chosen."""
    n = len(options)
    for k in range(n - 1):
        if bool(options[k]):
            return k
    # last one: record its condition too (keeps path condition exact)
    last = options[n - 1]
    if last.val is False:
        raise PathAbort("no option feasible")
    if last.val is None:
        P = cur()
        (P.order_conds if P.tier2_depth > 0 else P.conds).append(last.e)
    return n - 1


# --------------------------------------------------------------------------- Alg

class Alg:
    """real symbolic scalar num/den (den None == 1); `special` in (None, 'inf', 'nan')"""
    __slots__ = ("n", "d", "special", "_z")
    __array_priority__ = 2000

    def __init__(self, n, d=None, special=None):
        self.n = n
        self.d = d
        self.special = special
        self._z = None

    # ---- construction
    @staticmethod
    def const(c):
        return Alg(Poly.const(c))

    @staticmethod
    def of(o):
        if isinstance(o, Alg):
            return o
        if isinstance(o, SymBool):
            return o.as_alg()
        if isinstance(o, (float, _np.floating)):
            f = float(o)
            if f != f:
                return NAN
            if f in (float("inf"), float("-inf")):
                return INF
        if isinstance(o, _np.ndarray) and o.ndim == 0:
            return Alg.of(o[()])
        if isinstance(o, (float, _np.floating)) and not float(o).is_integer():
            return recognise_float(float(o))
        return Alg(Poly.const(o))

    @staticmethod
    def var(vid):
        return Alg(Poly.var(vid))

    def is_const(self):
        return self.special is None and self.d is None and self.n.is_const()

    def cval(self):
        return self.n.cval()

    def is_zero_syntactic(self):
        return self.special is None and self.n.is_zero()

    # ---- normal form
    @staticmethod
    def make(n, d):
        if d is None:
            return Alg(n)
        if n.is_zero():
            return Alg(n)
        st = d.single_term()
        if st is not None:
            m, c = st
            if m:
                P = cur()
                for v, _ in m:
                    P.nzvars.add(v)
                n = n.mulmono(minv(m), _cdiv(1, c))
            elif c != 1:
                n = n.scale(_cdiv(1, c))
            return Alg(n)
        if n.t == d.t:
            return Alg(ONE)
        # strip monomial content of d into n, make leading coefficient 1
        g = d.mono_content()
        if g:
            P = cur()
            for v, _ in g:
                P.nzvars.add(v)
            gi = minv(g)
            d = d.mulmono(gi)
            n = n.mulmono(gi)
        lm, lc = d.lead()
        if lc != 1:
            ci = _cdiv(1, lc)
            d = d.scale(ci)
            n = n.scale(ci)
        # exact cancellation
        if len(n.t) >= len(d.t) and len(n.t) * len(d.t) <= 60000:
            nn, gm = n.clear_neg()
            q = divexact(nn, d)
            if q is not None:
                if gm:
                    q = q.mulmono(minv(gm))
                return Alg(q)
        return Alg(n, d)

    # ---- arithmetic
    def _coerce(self, o):
        if isinstance(o, Alg):
            return o
        if isinstance(o, (Cx, complex, _np.complexfloating)):
            return None
        if isinstance(o, SymBool):
            return o.as_alg()
        if isinstance(o, (bool, int, float, Fraction, _np.bool_, _np.integer, _np.floating)):
            return Alg.of(o)
        if isinstance(o, _np.ndarray) and o.ndim == 0 and o.dtype != object and o.dtype.kind != "c":
            return Alg.of(o[()])
        return None

    def __add__(self, o):
        b = self._coerce(o)
        if b is None:
            if isinstance(o, (Cx, complex, _np.complexfloating)):
                o = Cx.of(o)
                return Cx.of(self) + o
            return NotImplemented
        a = self
        if a.special or b.special:
            return _special_add(a, b)
        if a.d is None and b.d is None:
            return Alg(a.n + b.n)
        if a.d is not None and b.d is not None and a.d.t == b.d.t:
            return Alg.make(a.n + b.n, a.d)
        if a.d is None:
            return Alg.make(a.n * b.d + b.n, b.d)
        if b.d is None:
            return Alg.make(a.n + b.n * a.d, a.d)
        return Alg.make(a.n * b.d + b.n * a.d, a.d * b.d)

    __radd__ = __add__

    def __neg__(self):
        if self.special:
            return self
        return Alg(-self.n, self.d)

    def __pos__(self):
        return self

    def __sub__(self, o):
        b = self._coerce(o)
        if b is None:
            if isinstance(o, (Cx, complex, _np.complexfloating)):
                o = Cx.of(o)
                return Cx.of(self) - o
            return NotImplemented
        return self + (-b)

    def __rsub__(self, o):
        b = self._coerce(o)
        if b is None:
            if isinstance(o, (Cx, complex, _np.complexfloating)):
                o = Cx.of(o)
                return o - Cx.of(self)
            return NotImplemented
        return b + (-self)

    def __mul__(self, o):
        b = self._coerce(o)
        if b is None:
            if isinstance(o, (Cx, complex, _np.complexfloating)):
                o = Cx.of(o)
                return Cx.of(self) * o
            return NotImplemented
        a = self
        if a.special or b.special:
            return _special_mul(a, b)
        if a.d is None and b.d is None:
            return Alg(a.n * b.n)
        if a.n.is_zero() or b.n.is_zero():
            return Alg(ZERO)
        n = a.n * b.n
        if a.d is None:
            d = b.d
        elif b.d is None:
            d = a.d
        else:
            d = a.d * b.d
        return Alg.make(n, d)

    __rmul__ = __mul__

    def __truediv__(self, o):
        b = self._coerce(o)
        if b is None:
            if isinstance(o, (Cx, complex, _np.complexfloating)):
                o = Cx.of(o)
                return Cx.of(self) / o
            return NotImplemented
        a = self
        if a.special or b.special:
            return _special_div(a, b)
        if b.is_const():
            c = b.cval()
            if c == 0:
                return _div_by_zero(a)
            return Alg(a.n.scale(_cdiv(1, c)), a.d)
        # b.n must be non-zero: fork unless known
        if not _known_nonzero(b.n):
            if bool(Alg(b.n) == 0):
                return _div_by_zero(a)
            _mark_nonzero(b.n)
        n = a.n if b.d is None else a.n * b.d
        st = b.n.single_term()
        if st is not None:
            m, c = st
            n = n.mulmono(minv(m), _cdiv(1, c))
            return Alg.make(n, a.d)
        d = b.n if a.d is None else a.d * b.n
        return Alg.make(n, d)

    def __rtruediv__(self, o):
        b = self._coerce(o)
        if b is None:
            if isinstance(o, (Cx, complex, _np.complexfloating)):
                o = Cx.of(o)
                return o / Cx.of(self)
            return NotImplemented
        return b / self

    def __pow__(self, k):
        if isinstance(k, Alg) and k.is_const():
            k = k.cval()
        if isinstance(k, (float, _np.floating)):
            k = _q(k) if float(k).is_integer() else _rational_guess(float(k))
        if isinstance(k, (int, _np.integer)):
            k = int(k)
            if self.special:
                return self if k else Alg.const(1)
            if k >= 0:
                return Alg.make(self.n ** k, None if self.d is None else self.d ** k)
            return Alg.const(1) / (self ** (-k))
        if isinstance(k, Fraction):
            return frac_power(self, k)
        return NotImplemented

    def __rpow__(self, b):
        if self.is_const():
            return Alg.of(b) ** self.cval()
        raise UnsupportedSymbolic("symbolic exponent")

    def __abs__(self):
        return alg_abs(self)

    def conjugate(self):
        return self

    conj = conjugate

    @property
    def real(self):
        return self

    @property
    def imag(self):
        return Alg(ZERO)

    # ---- comparisons
    def _cmp(self, o, op):
        b = self._coerce(o)
        if b is None:
            if isinstance(o, (Cx, complex, _np.complexfloating)):
                return op(Cx.of(self), Cx.of(o))
            return NotImplemented
        a = self
        if a.special or b.special:
            return _special_cmp(a, b, op)
        if a.d is None and b.d is None:
            n, d = a.n - b.n, None
        else:
            x = a - b
            if x.special:
                return _special_cmp(x, Alg(ZERO), op)
            n, d = x.n, x.d
        if n.is_const() and d is None:
            c = n.cval()
            return TRUE if op(c, 0) else FALSE
        eqlike = op in (operator.eq, operator.ne)
        n, g = n.clear_neg()
        P = cur()
        if P.rules:
            n = reduce_poly(n)
        if P.__dict__.get("_unfold_in_cmp") and d is None:
            n2 = unfold_defs(n)
            if n2 is not n:
                n = reduce_poly(n2) if P.rules else n2
        if n.is_const():
            c = n.cval()
            if eqlike or c == 0:
                return TRUE if op(c, 0) else FALSE
        if d is None and all(v in P.positive for v, _ in g):
            sk = _sign_known(Alg(n))
            if sk in (1, -1):
                return TRUE if op(sk, 0) else FALSE
            if sk == 2 and op in (operator.ge, operator.lt):
                return TRUE if op is operator.ge else FALSE
            if sk == -2 and op in (operator.le, operator.gt):
                return TRUE if op is operator.le else FALSE
        # canonical atom: leading coefficient 1 (p == 0 and -2p == 0 become the same z3 atom)
        lm, lc = n.lead()
        flip = lc < 0
        if lc != 1:
            n = n.scale(_cdiv(1, lc))
        if eqlike:
            return _atom(P, n, "eq" if op is operator.eq else "ne")
        # sign corrections: n_orig = lc * n / g ; value = n_orig / d
        sgn = []
        for v, e in g:
            if e % 2 and v not in P.positive:
                sgn.append(P.vars[v].z)
        if d is not None:
            dd, g2 = d.clear_neg()
            sgn.append(dd.z3())
            for v, e in g2:
                if e % 2 and v not in P.positive:
                    sgn.append(P.vars[v].z)
        if flip:
            op = {operator.lt: operator.gt, operator.le: operator.ge, operator.gt: operator.lt, operator.ge: operator.le}[op]
        if not sgn:
            return _atom(P, n, op.__name__)
        t = _atom_term(P, n)
        for s_ in sgn:
            t = t * s_
        return SymBool(op(t, 0))

    def __eq__(self, o):
        return self._cmp(o, operator.eq)

    def __ne__(self, o):
        return self._cmp(o, operator.ne)

    def __lt__(self, o):
        return self._cmp(o, operator.lt)

    def __le__(self, o):
        return self._cmp(o, operator.le)

    def __gt__(self, o):
        return self._cmp(o, operator.gt)

    def __ge__(self, o):
        return self._cmp(o, operator.ge)

    def __hash__(self):
        return id(self)

    # ---- concretisation (constants only)
    def __float__(self):
        if self.special == "inf":
            return float("inf")
        if self.special == "nan":
            return float("nan")
        if self.is_const():
            return float(self.cval())
        raise UnsupportedSymbolic("float() of a symbolic scalar")

    def __int__(self):
        if self.is_const():
            c = self.cval()
            return int(c)
        raise UnsupportedSymbolic("int() of a symbolic scalar")

    def __index__(self):
        if self.is_const() and isinstance(self.cval(), int):
            return self.cval()
        raise UnsupportedSymbolic("index from a symbolic scalar")

    def __bool__(self):
        return bool(self != 0)

    def __round__(self, n=None):
        raise UnsupportedSymbolic("round() of a symbolic scalar")

    def z3(self):
        """z3 term (only for den-free or as quotient)"""
        n, g = self.n.clear_neg()
        zn = n.z3()
        den = None
        if g:
            den = Poly({g: 1}).z3()
        if self.d is not None:
            dd = self.d.z3()
            den = dd if den is None else den * dd
        return zn if den is None else zn / den

    dtype = _np.dtype(float)
    ndim = 0
    shape = ()
    size = 1

    def item(self):
        return self

    def astype(self, dt, **kw):
        return cast_scalar(self, _np.dtype(dt))

    def copy(self):
        return self

    def __repr__(self):
        if self.special:
            return f"Alg<{self.special}>"
        if self.d is None:
            return f"Alg({self.n!r})"
        return f"Alg(({self.n!r}) / ({self.d!r}))"

    # numpy protocol hooks are attached in symnp (to avoid an import cycle)


numbers.Real.register(Alg)

def unfold_defs(n):
    """substitute variables that were introduced as names for polynomials (exact determinants, harness define()) by
    their values; n without negative exponents"""
    P = cur()
    defs = P.__dict__.get("_defvals")
    if not defs:
        return n
    hit = False
    for m in n.t:
        for v, _ in m:
            if v in defs:
                hit = True
                break
        if hit:
            break
    if not hit:
        return n
    out = Poly()
    for m, c in n.t.items():
        term = Poly({(): c})
        rest = []
        for v, e in m:
            if v in defs:
                term = term * (defs[v] ** e)
            else:
                rest.append((v, e))
        out = out + term.mulmono(tuple(rest))
    return unfold_defs(out)


_OPS = {"eq": operator.eq, "ne": operator.ne, "lt": operator.lt, "le": operator.le, "gt": operator.gt, "ge": operator.ge}


def _atom_term(P, n):
    memo = P.__dict__.setdefault("_atoms", {})
    k = (n.key(), "z")
    base = memo.get(k)
    if base is None:
        base = n.z3()
        memo[k] = base
    return base


def _atom(P, n, opname):
    memo = P.__dict__.setdefault("_atoms", {})
    key = (n.key(), opname)
    r = memo.get(key)
    if r is None:
        base = _atom_term(P, n)
        if opname == "ne":
            r = SymBool(z3.Not(base == 0))
        else:
            r = SymBool(_OPS[opname](base, 0))
        memo[key] = r
    return r


INF = Alg(ZERO, None, "inf")
NAN = Alg(ZERO, None, "nan")


_FLOAT_MEMO = {}


def recognise_float(f):
    """exact meaning of a non-integer float constant that reaches symbolic arithmetic: a small rational, the square
    root of a small rational (np.sqrt(3), ...), a rational multiple of pi (math.pi based constants); otherwise the
    exact binary fraction (documented: such constants are taken at face value)"""
    import math
    fr = Fraction(f).limit_denominator(4096)
    if float(fr) == f:
        return Alg(Poly.const(fr))
    sq = Fraction(f * f).limit_denominator(4096)
    if abs(float(sq) - f * f) <= 4e-16 * max(1.0, f * f) and state.active():
        r = alg_sqrt(Alg(Poly.const(sq)))
        return r if f > 0 else -r
    pq = Fraction(f / math.pi).limit_denominator(360)
    if abs(float(pq) * math.pi - f) <= 4e-16 * max(1.0, abs(f)) and state.active():
        from .trig import pi_const
        return pi_const() * Alg(Poly.const(pq))
    return Alg(Poly.const(Fraction(f)))


def _rational_guess(f):
    fr = Fraction(f).limit_denominator(64)
    if abs(float(fr) - f) > 1e-12:
        raise UnsupportedSymbolic(f"non-rational exponent {f}")
    return fr


def _pkey(p):
    return p.key()


def _known_nonzero(p):
    P = cur()
    st = p.single_term()
    if st is not None:
        m, c = st
        return all(v in P.nzvars or v in P.positive for v, _ in m)
    return _pkey(p) in P.nzpolys or _pkey(-p) in P.nzpolys


def _mark_nonzero(p):
    P = cur()
    st = p.single_term()
    if st is not None:
        for v, _ in st[0]:
            P.nzvars.add(v)
    else:
        P.nzpolys.add(_pkey(p))


def _div_by_zero(a):
    # a / 0 : nan if a == 0 else (unsigned) inf -- numpy semantics under errstate(ignore)
    if bool(a == 0):
        return NAN
    return INF


def _special_add(a, b):
    if a.special == "nan" or b.special == "nan":
        return NAN
    return INF  # inf + finite, inf + inf (unsigned model: inf - inf is not distinguished -> documented)


def _special_mul(a, b):
    if a.special == "nan" or b.special == "nan":
        return NAN
    other = b if a.special else a
    if other.special:
        return INF
    if bool(other == 0):
        return NAN
    return INF


def _special_div(a, b):
    if a.special == "nan" or b.special == "nan":
        return NAN
    if a.special and b.special:
        return NAN
    if b.special:
        return Alg(ZERO)
    return INF


def _special_cmp(a, b, op):
    if a.special == "nan" or b.special == "nan":
        return TRUE if op is operator.ne else FALSE
    if a.special and b.special:
        # unsigned infinities: equality only
        if op in (operator.eq, operator.le, operator.ge):
            return TRUE
        return FALSE
    if op is operator.eq:
        return FALSE
    if op is operator.ne:
        return TRUE
    raise UnsupportedSymbolic("ordering comparison with (unsigned) infinity")


# --------------------------------------------------------------------------- tower variables

def new_input(name, sort="real"):
    P = cur()
    vid = P.named_var(name, "inint" if sort == "int" else "in", sort)
    return Alg.var(vid)


def fresh(kind, base=None, positive=False, nonneg=False, nonzero=False):
    P = cur()
    vid = P.new_var(base or kind, kind)
    z = P.vars[vid].z
    if positive:
        P.positive.add(vid)
        P.nzvars.add(vid)
        P.nonneg.add(vid)
        P.add_def(z > 0)
    elif nonneg:
        P.nonneg.add(vid)
        P.add_def(z >= 0)
    if nonzero:
        P.nzvars.add(vid)
    return vid


def _sign_known(a):
    """+1 / -1 / 0 if the sign of polynomial Alg a is syntactically known (monomial of signed vars), else None"""
    if a.d is not None:
        return None
    if a.n.is_zero():
        return 0
    st = a.n.single_term()
    if st is None:
        # sum of even powers with positive coefficients?
        ok = True
        for m, c in a.n.t.items():
            if c < 0:
                ok = False
                break
            for v, e in m:
                if e % 2 and v not in cur().nonneg:
                    ok = False
                    break
            if not ok:
                break
        if ok:
            return 2  # non-negative (maybe zero)
        return None
    m, c = st
    P = cur()
    s = 1 if c > 0 else -1
    strict = True
    for v, e in m:
        if e % 2 == 0:
            if v not in P.nzvars and v not in P.positive:
                strict = False
            continue
        if v in P.positive:
            continue
        if v in P.nonneg:
            strict = False
            continue
        return None
    if strict:
        return s
    return 2 * s  # weak sign


def _mark_positive(r):
    """r is an abs()/sqrt() value of something known to be non-zero: record strict positivity of its variable"""
    st = r.n.single_term() if (isinstance(r, Alg) and r.d is None and not r.special) else None
    if st is None:
        return
    P = cur()
    for v, e in st[0]:
        if v in P.nonneg and v not in P.positive:
            P.positive.add(v)
            P.nzvars.add(v)
            P.add_def(P.vars[v].z > 0)


def alg_abs(a, nz=False):
    if a.special:
        return a
    if a.is_const():
        return Alg.const(abs(a.cval()))
    if a.d is not None:
        return alg_abs(Alg(a.n), nz) / alg_abs(Alg(a.d), True)
    if nz or _known_nonzero(a.n):
        r = alg_abs(a, False) if nz else None
        if r is None:
            r = _alg_abs_core(a)
        _mark_positive(r)
        return r
    return _alg_abs_core(a)


def _alg_abs_core(a):
    sk = _sign_known(a)
    if sk is not None:
        if sk >= 0:
            return a
        return -a
    n, g = a.n.clear_neg()
    if g:
        return alg_abs(Alg(n)) / alg_abs(Alg(Poly({g: 1})), True)
    st = a.n.single_term()
    if st is not None and len(st[0]) > 1:
        # |c * prod v^e| = |c| prod |v|^e
        m, c = st
        r = Alg.const(abs(c))
        P = cur()
        for v, e in m:
            r = r * alg_abs(Alg(Poly.var(v)), v in P.nzvars) ** e
        return r
    P = cur()
    # memoise on polynomial (and its negative)
    memo = P.__dict__.setdefault("_absmemo", {})
    k = a.n.key()
    if k in memo:
        return memo[k]
    k2 = (-a.n).key()
    if k2 in memo:
        return memo[k2]
    # perfect square? then non-negative
    vid = fresh("abs", nonneg=True)
    z = P.vars[vid].z
    za = a.n.z3()
    P.add_def(z == z3.If(za >= 0, za, -za))
    an = a.n
    P.rules[vid] = (2, (lambda an=an: an * an))
    r = Alg.var(vid)
    memo[k] = r
    return r


def alg_sqrt(a, allow_negative=False):
    """principal real square root (caller guarantees / path decides a >= 0)"""
    if a.special:
        return a
    if a.is_const():
        c = Fraction(a.cval())
        if c < 0:
            raise ValueError("sqrt of negative constant")
        import math
        rn, rd = math.isqrt(c.numerator), math.isqrt(c.denominator)
        if rn * rn == c.numerator and rd * rd == c.denominator:
            return Alg.const(Fraction(rn, rd))
    if a.d is not None:
        # sqrt(n/d) = sqrt(n*d)/|d|
        return alg_sqrt(Alg(a.n * a.d)) / alg_abs(Alg(a.d))
    n, g = a.n.clear_neg()
    if g:
        # a = n / g ; sqrt(a) = sqrt(n*g)/|g|
        gp = Poly({g: 1})
        return alg_sqrt(Alg(n * gp)) / alg_abs(Alg(gp))
    P = cur()
    memo = P.__dict__.setdefault("_sqrtmemo", {})
    k = n.key()
    if k in memo:
        return memo[k]
    # pull out the square part of the monomial content and rational content
    q = poly_sqrt(n)
    if q is not None and P.rules:
        if not (reduce_poly(q * q) - n).is_zero():
            q = None
    if q is not None:
        r = alg_abs(Alg(q))
        memo[k] = r
        return r
    # extract square monomial content
    gc = n.mono_content()
    sq = tuple((v, e - e % 2) for v, e in gc if e >= 2)
    if sq:
        inner = n.mulmono(minv(sq))
        r = alg_abs(Alg(Poly({tuple((v, e // 2) for v, e in sq): 1}))) * alg_sqrt(Alg(inner))
        memo[k] = r
        return r
    vid = fresh("rad", base="sqrt", nonneg=True)
    z = P.vars[vid].z
    P.add_def(z * z == n.z3())
    P.rules[vid] = (2, n)
    r = Alg.var(vid)
    memo[k] = r
    return r


def alg_cbrt(a):
    if a.special:
        return a
    if a.is_const():
        c = Fraction(a.cval())
        s = -1 if c < 0 else 1
        c = abs(c)
        rn, rd = round(c.numerator ** (1 / 3)), round(c.denominator ** (1 / 3))
        for dn in (-1, 0, 1):
            for dd in (-1, 0, 1):
                if (rn + dn) ** 3 == c.numerator and (rd + dd) ** 3 == c.denominator:
                    return Alg.const(s * Fraction(rn + dn, rd + dd))
    if a.d is not None:
        return alg_cbrt(Alg(a.n * a.d * a.d)) / Alg(a.d)
    n, g = a.n.clear_neg()
    if g:
        gp = Poly({g: 1})
        return alg_cbrt(Alg(n * gp * gp)) / Alg(gp)
    P = cur()
    memo = P.__dict__.setdefault("_cbrtmemo", {})
    k = n.key()
    if k in memo:
        return memo[k]
    vid = fresh("rad", base="cbrt")
    z = P.vars[vid].z
    P.add_def(z * z * z == n.z3())
    P.rules[vid] = (3, n)
    r = Alg.var(vid)
    memo[k] = r
    return r


def frac_power(a, k):
    """a ** (p/q) for a > 0 (numpy returns nan for negative bases; the caller's path must ensure positivity)"""
    k = Fraction(k)
    if k.denominator == 1:
        return a ** int(k)
    if a.is_const():
        c = Fraction(a.cval())
        if c == 1:
            return a
        if c < 0:
            raise UnsupportedSymbolic("fractional power of a negative constant")
    if k.denominator == 2:
        return alg_sqrt(a) ** k.numerator
    # w = a**(1/q) > 0 with w**q = a
    q = k.denominator
    P = cur()
    if a.d is not None:
        num = frac_power(Alg(a.n), k)
        den = frac_power(Alg(a.d), k)
        return num / den
    n, g = a.n.clear_neg()
    if g:
        return frac_power(Alg(n), k) / frac_power(Alg(Poly({g: 1})), k)
    memo = P.__dict__.setdefault("_rootmemo", {})
    key = (n.key(), q)
    if key in memo:
        w = memo[key]
    else:
        if n.is_const():
            c = Fraction(n.cval())
            import math
            rn = round(c.numerator ** (1 / q))
            rd = round(c.denominator ** (1 / q))
            if rn ** q == c.numerator and rd ** q == c.denominator:
                w = Alg.const(Fraction(rn, rd))
                memo[key] = w
                return w ** k.numerator
        vid = fresh("rad", base=f"root{q}", positive=True)
        z = P.vars[vid].z
        zt = z
        for _ in range(q - 1):
            zt = zt * z
        P.add_def(zt == n.z3())
        P.add_def(n.z3() > 0, tier=1)
        P.rules[vid] = (q, n)
        w = Alg.var(vid)
        memo[key] = w
    return w ** k.numerator


def ite(c, a, b):
    """defined variable v = if c then a else b (no fork)"""
    c = SymBool.of(c)
    if c.val is not None:
        return a if c.val else b
    if isinstance(a, SymBool) or isinstance(b, SymBool) or isinstance(a, (bool, _np.bool_)) and isinstance(b, (bool, _np.bool_)):
        a, b = SymBool.of(a), SymBool.of(b)
        return SymBool(z3.If(c.e, a.e, b.e))
    if isinstance(a, Cx) or isinstance(b, Cx):
        a, b = Cx.of(a), Cx.of(b)
        return Cx(ite(c, a.re, b.re), ite(c, a.im, b.im))
    a, b = Alg.of(a), Alg.of(b)
    if a.special or b.special:
        return a if bool(c) else b
    if a.d is None and b.d is None and a.n.t == b.n.t:
        return a
    P = cur()
    vid = fresh("def", base="ite")
    z = P.vars[vid].z
    P.add_def(z == z3.If(c.e, a.z3(), b.z3()))
    return Alg.var(vid)


def alg_max(a, b):
    a, b = Alg.of(a), Alg.of(b)
    if a.special or b.special:
        if a.special == "nan" or b.special == "nan":
            return NAN
        return INF
    d = a - b
    if d.is_const():
        return a if d.cval() >= 0 else b
    return ite(a >= b, a, b)


def alg_min(a, b):
    a, b = Alg.of(a), Alg.of(b)
    if a.special or b.special:
        raise UnsupportedSymbolic("min with inf/nan")
    d = a - b
    if d.is_const():
        return a if d.cval() <= 0 else b
    return ite(a <= b, a, b)


# --------------------------------------------------------------------------- complex numbers

class Cx:
    __slots__ = ("re", "im")
    __array_priority__ = 2000

    def __init__(self, re, im):
        self.re = re
        self.im = im

    @staticmethod
    def of(o):
        if isinstance(o, Cx):
            return o
        if isinstance(o, (complex, _np.complexfloating)):
            return Cx(Alg.of(o.real), Alg.of(o.imag))
        if isinstance(o, _np.ndarray) and o.ndim == 0:
            return Cx.of(o[()])
        return Cx(Alg.of(o), Alg(ZERO))

    def _c(self, o):
        if isinstance(o, Cx):
            return o
        if isinstance(o, (Alg, SymBool, bool, int, float, Fraction, complex, _np.number, _np.bool_)):
            return Cx.of(o)
        if isinstance(o, _np.ndarray) and o.ndim == 0 and o.dtype != object:
            return Cx.of(o[()])
        return None

    def is_real_syntactic(self):
        return self.im.is_zero_syntactic()

    def __add__(self, o):
        o = self._c(o)
        if o is None:
            return NotImplemented
        return Cx(self.re + o.re, self.im + o.im)

    __radd__ = __add__

    def __neg__(self):
        return Cx(-self.re, -self.im)

    def __pos__(self):
        return self

    def __sub__(self, o):
        o = self._c(o)
        if o is None:
            return NotImplemented
        return Cx(self.re - o.re, self.im - o.im)

    def __rsub__(self, o):
        o = self._c(o)
        if o is None:
            return NotImplemented
        return o - self

    def __mul__(self, o):
        o = self._c(o)
        if o is None:
            return NotImplemented
        a, b, c, d = self.re, self.im, o.re, o.im
        if b.is_zero_syntactic():
            return Cx(a * c, a * d)
        if d.is_zero_syntactic():
            return Cx(a * c, b * c)
        if a.is_zero_syntactic() and c.is_zero_syntactic():
            return Cx(-(b * d), Alg(ZERO))
        return Cx(a * c - b * d, a * d + b * c)

    __rmul__ = __mul__

    def __truediv__(self, o):
        o = self._c(o)
        if o is None:
            return NotImplemented
        c, d = o.re, o.im
        if d.is_zero_syntactic():
            return Cx(self.re / c, self.im / c)
        if c.is_zero_syntactic():
            # (a+bi)/(di) = (b - ai)/d
            return Cx(self.im / d, -(self.re / d))
        m = c * c + d * d
        num = self * Cx(c, -d)
        return Cx(num.re / m, num.im / m)

    def __rtruediv__(self, o):
        o = self._c(o)
        if o is None:
            return NotImplemented
        return o / self

    def __pow__(self, k):
        if isinstance(k, Alg) and k.is_const():
            k = k.cval()
        if isinstance(k, (int, _np.integer)) or (isinstance(k, float) and k.is_integer()):
            k = int(k)
            if k < 0:
                return Cx.of(1) / (self ** (-k))
            r = Cx.of(1)
            b = self
            while k:
                if k & 1:
                    r = r * b
                k >>= 1
                if k:
                    b = b * b
            return r
        if self.is_real_syntactic():
            return Cx(self.re ** k, Alg(ZERO))
        raise UnsupportedSymbolic("complex fractional power")

    def conjugate(self):
        return Cx(self.re, -self.im)

    conj = conjugate

    @property
    def real(self):
        return self.re

    @property
    def imag(self):
        return self.im

    def __abs__(self):
        if self.re.special or self.im.special:
            # C99 hypot: infinite if either part is infinite, else nan
            return INF if "inf" in (self.re.special, self.im.special) else NAN
        if self.im.is_zero_syntactic():
            return alg_abs(self.re)
        if self.re.is_zero_syntactic():
            return alg_abs(self.im)
        return alg_sqrt(self.re * self.re + self.im * self.im)

    def __eq__(self, o):
        o = self._c(o)
        if o is None:
            return NotImplemented
        return (self.re == o.re) & (self.im == o.im)

    def __ne__(self, o):
        o = self._c(o)
        if o is None:
            return NotImplemented
        return (self.re != o.re) | (self.im != o.im)

    def _ord(self, o, op):
        # numpy orders complex lexicographically; only supported when both are syntactically real
        o = self._c(o)
        if o is None:
            return NotImplemented
        if self.is_real_syntactic() and o.is_real_syntactic():
            return op(self.re, o.re)
        raise UnsupportedSymbolic("ordering of complex numbers")

    def __lt__(self, o):
        return self._ord(o, operator.lt)

    def __le__(self, o):
        return self._ord(o, operator.le)

    def __gt__(self, o):
        return self._ord(o, operator.gt)

    def __ge__(self, o):
        return self._ord(o, operator.ge)

    def __hash__(self):
        return id(self)

    def __bool__(self):
        return bool(self != 0)

    def __complex__(self):
        return complex(float(self.re), float(self.im))

    def __float__(self):
        raise TypeError("can't convert complex to float")

    dtype = _np.dtype(complex)
    ndim = 0
    shape = ()
    size = 1

    def item(self):
        return self

    def astype(self, dt, **kw):
        return cast_scalar(self, _np.dtype(dt))

    def copy(self):
        return self

    def __repr__(self):
        return f"Cx({self.re!r}, {self.im!r})"


numbers.Complex.register(Cx)


def cx_sqrt(z):
    """principal complex square root as a constrained pair"""
    z = Cx.of(z)
    if z.im.is_zero_syntactic():
        a = z.re
        if a.is_const():
            c = a.cval()
            if c >= 0:
                return Cx(alg_sqrt(a), Alg(ZERO))
            return Cx(Alg(ZERO), alg_sqrt(-a))
        sk = _sign_known(a)
        if sk is not None and sk >= 0:
            return Cx(alg_sqrt(a), Alg(ZERO))
        if sk is not None and sk < 0:
            return Cx(Alg(ZERO), alg_sqrt(-a))
        # fork on sign (keeps radicals real)
        if bool(a >= 0):
            return Cx(alg_sqrt(a), Alg(ZERO))
        return Cx(Alg(ZERO), alg_sqrt(-a))
    # general: w = x + iy, x^2 - y^2 = re, 2xy = im, principal branch x > 0 or (x = 0 and y >= 0)
    P = cur()
    xv = fresh("csq", base="csx", nonneg=True)
    yv = fresh("csq", base="csy")
    x, y = P.vars[xv].z, P.vars[yv].z
    P.add_def(x * x - y * y == z.re.z3())
    P.add_def(2 * x * y == z.im.z3())
    P.add_def(z3.Or(x > 0, y >= 0))
    X, Y = Alg.var(xv), Alg.var(yv)
    # reduction rule: y^2 -> x^2 - re  (y is the later variable); x*y -> im/2 cannot be a single-variable rule,
    # it stays as a solver-side definition
    if z.re.d is None and not z.re.n.has_neg():
        P.rules[yv] = (2, Poly.var(xv, 2) - z.re.n)
    return Cx(X, Y)


def cast_scalar(x, dt):
    k = dt.kind
    if k == "c":
        return Cx.of(x)
    if k == "b":
        if isinstance(x, SymBool):
            return x
        if isinstance(x, Cx):
            return x != 0
        return SymBool.of(x)
    if k in "fiu":
        if isinstance(x, Cx):
            return x.re  # numpy discards the imaginary part (with a warning)
        if isinstance(x, SymBool):
            return x.as_alg()
        x = Alg.of(x)
        if k in "iu" and not (x.is_const() and isinstance(x.cval(), int)):
            # symbolic value cast to int: only sound if it is integral; unsupported otherwise
            raise UnsupportedSymbolic("astype(int) of a symbolic scalar")
        return x
    raise UnsupportedSymbolic(f"cast to {dt}")


def is_sym_scalar(x):
    return isinstance(x, (Alg, Cx, SymBool, BoolCount, _Parity))
