"""Value-dependent numpy entry points on symbolic data (NEP-18 handlers), linear-algebra contract stubs,
and the module proxy `symnp` that replaces the global `np` of the geometer modules inside a checking process."""
from __future__ import annotations

import itertools
import operator
import types

import numpy as _np
import z3

from . import state
from .alg import (Alg, Cx, SymBool, BoolCount, TRUE, FALSE, INF, NAN, ZERO, Poly, alg_abs, alg_sqrt, alg_max,
                  ite, is_sym_scalar, cast_scalar, fresh, new_input)
from .state import UnsupportedSymbolic, cur
from . import symarr as S
from .symarr import (SymArray, handles, to_sym, is_symbolic, shadow, plainify, concretize_bool, wrap_result, lift,
                     h_sum, h_prod, h_all, h_any, h_max, h_min, h_argmax, h_average, _reduce, _truth, _fix_elems,
                     ufunc_dispatch, function_dispatch)

_ND = _np.ndarray

# scalar classes take part in numpy dispatch as well
for _cls in (Alg, Cx, SymBool):
    _cls.__array_ufunc__ = lambda self, ufunc, method, *inputs, **kw: ufunc_dispatch(ufunc, method, inputs, kw)
    _cls.__array_function__ = lambda self, func, types_, args, kwargs: function_dispatch(func, types_, args, kwargs)

TOL = {"tau": 0}   # idealised tolerance (exact arithmetic): isclose(a, b) <=> a == b


def _sa(x, dtype=None):
    return x if isinstance(x, SymArray) and dtype is None else to_sym(x, dtype)


def _elementwise(f, *arrs, vd=None):
    ps = [S._obj(a) if isinstance(a, _ND) else a for a in arrs]
    if not any(isinstance(a, _ND) for a in ps):
        r = f(*ps)
    else:
        r = _np.frompyfunc(f, len(ps), 1)(*[S._box(a) for a in ps])
    if isinstance(r, _ND):
        r = _fix_elems(r, _np.dtype(vd) if vd is not None else None)
        return SymArray(r, vd)
    return _fix_elems(r, _np.dtype(vd)) if vd is not None else r


# --------------------------------------------------------------------------- comparisons with tolerance

def _close(a, b, rtol, atol):
    """|a-b| <= atol + rtol*|b| with symbolic a/b.  rtol/atol are idealised to tau (default 0)."""
    tau = TOL["tau"]
    if isinstance(a, (Cx, complex, _np.complexfloating)) or isinstance(b, (Cx, complex, _np.complexfloating)):
        a, b = Cx.of(a), Cx.of(b)
        if tau == 0:
            return a == b
        raise UnsupportedSymbolic("complex isclose with non-zero tolerance")
    if isinstance(a, SymBool) or isinstance(b, SymBool):
        return SymBool.of(a) == SymBool.of(b)
    a, b = Alg.of(a), Alg.of(b)
    if a.special or b.special:
        if a.special == "nan" or b.special == "nan":
            return FALSE
        return TRUE if (a.special and b.special) else FALSE
    if tau == 0:
        return a == b
    d = alg_abs(a - b)
    return d <= tau


@handles(_np.isclose)
def h_isclose(a, b, rtol=1e-05, atol=1e-08, equal_nan=False):
    return _elementwise(lambda x, y: _close(x, y, rtol, atol), a, b, vd=bool)


@handles(_np.allclose)
def h_allclose(a, b, rtol=1e-05, atol=1e-08, equal_nan=False):
    r = h_isclose(a, b, rtol, atol)
    return bool(h_all(r)) if isinstance(r, SymArray) else bool(r)


@handles(_np.array_equal)
def h_array_equal(a, b, equal_nan=False):
    a, b = _sa(a), _sa(b)
    if a.shape != b.shape:
        return False
    return bool(h_all(a == b))


# --------------------------------------------------------------------------- reductions

handles(_np.sum)(lambda a, axis=None, dtype=None, out=None, keepdims=False, **kw: h_sum(a, axis=axis, keepdims=keepdims))
handles(_np.prod)(lambda a, axis=None, dtype=None, out=None, keepdims=False, **kw: h_prod(a, axis=axis, keepdims=keepdims))
handles(_np.all)(lambda a, axis=None, out=None, keepdims=False, **kw: h_all(a, axis=axis, keepdims=keepdims))
handles(_np.any)(lambda a, axis=None, out=None, keepdims=False, **kw: h_any(a, axis=axis, keepdims=keepdims))
handles(_np.max, _np.amax)(lambda a, axis=None, out=None, keepdims=False, **kw: h_max(a, axis=axis, keepdims=keepdims))
handles(_np.min, _np.amin)(lambda a, axis=None, out=None, keepdims=False, **kw: h_min(a, axis=axis, keepdims=keepdims))
handles(_np.argmax)(lambda a, axis=None, out=None, keepdims=False: h_argmax(_sa(a), axis=axis, keepdims=keepdims))
handles(_np.argmin)(lambda a, axis=None, out=None, keepdims=False: h_argmax(-_sa(a), axis=axis, keepdims=keepdims))
handles(_np.average)(h_average)
handles(_np.mean)(lambda a, axis=None, dtype=None, out=None, keepdims=False, **kw: h_average(a, axis=axis, keepdims=keepdims))


@handles(_np.nonzero)
def h_nonzero(a):
    return concretize_bool(_sa(a)).nonzero()


@handles(_np.flatnonzero)
def h_flatnonzero(a):
    return _np.flatnonzero(concretize_bool(_sa(a)))


@handles(_np.count_nonzero)
def h_count_nonzero(a, axis=None, **kw):
    return h_sum(_elementwise(_truth, _sa(a), vd=bool), axis=axis)


@handles(_np.where)
def h_where(cond, x=None, y=None):
    if x is None:
        return concretize_bool(_sa(cond)).nonzero()
    if not is_symbolic(x) and not is_symbolic(y):
        xs, ys = _np.asarray(x), _np.asarray(y)
        if xs.dtype.kind in "iub" and ys.dtype.kind in "iub":
            # index-like result: concretise the condition (fork)
            return _np.where(concretize_bool(_sa(cond)), x, y)
    vd = _np.asarray(S._shadow_call(_np.where, [cond, x, y])).dtype
    csize = cond.size if isinstance(cond, _ND) else 1
    if csize <= 2 and is_symbolic(cond):
        # tiny selections are decided by a fork: the selected value stays transparent to the normal form (an opaque
        # if-then-else variable would hide e.g. the radical beta in QuadricTensor.components)
        cond = concretize_bool(cond if isinstance(cond, _ND) else _sa(cond))
    c = S._obj(cond) if isinstance(cond, _ND) else cond
    r = _elementwise(lambda cc, a, b: ite(_truth(cc), lift(a, vd.kind), lift(b, vd.kind)), c, x, y, vd=vd)
    if not isinstance(r, _ND):
        # numpy.where returns a 0-d array (not a scalar) for scalar arguments
        a0 = _np.empty((), dtype=object)
        a0[()] = r
        r = SymArray(a0, vd)
    return r


# --------------------------------------------------------------------------- parts / realness

@handles(_np.real)
def h_real(a):
    if isinstance(a, (Alg, Cx)):
        return a.real
    return _sa(a).real


@handles(_np.imag)
def h_imag(a):
    if isinstance(a, (Alg, Cx)):
        return a.imag
    return _sa(a).imag


@handles(_np.isreal)
def h_isreal(a):
    if isinstance(a, Alg):
        return TRUE
    if isinstance(a, Cx):
        return a.im == 0
    a = _sa(a)
    if a._vd.kind != "c":
        return _np.ones(a.shape, dtype=bool)
    return _elementwise(lambda x: Cx.of(x).im == 0, a, vd=bool)


@handles(_np.iscomplex)
def h_iscomplex(a):
    r = h_isreal(a)
    return ~r


@handles(_np.real_if_close)
def h_real_if_close(a, tol=100):
    if isinstance(a, Alg):
        return a
    if isinstance(a, Cx):
        return a.re if bool(a.im == 0) else a
    a = _sa(a)
    if a._vd.kind != "c":
        return a
    allreal = h_all(_elementwise(lambda x: Cx.of(x).im == 0, a, vd=bool))
    if bool(allreal):
        return SymArray(_np.frompyfunc(lambda x: Cx.of(x).re, 1, 1)(a.plain), _np.dtype(float)) if a.ndim else Cx.of(a.plain[()]).re
    return a


@handles(_np.conjugate, _np.conj)
def h_conj(a, **kw):
    return ufunc_dispatch(_np.conjugate, "__call__", (a,), kw)


@handles(_np.zeros_like)
def h_zeros_like(a, dtype=None, order="K", subok=True, shape=None):
    a = _sa(a)
    return zeros(a.shape if shape is None else shape, dtype or a._vd)


@handles(_np.ones_like)
def h_ones_like(a, dtype=None, order="K", subok=True, shape=None):
    a = _sa(a)
    return ones(a.shape if shape is None else shape, dtype or a._vd)


@handles(_np.empty_like)
def h_empty_like(a, dtype=None, order="K", subok=True, shape=None):
    a = _sa(a)
    return zeros(a.shape if shape is None else shape, dtype or a._vd)


@handles(_np.full_like)
def h_full_like(a, fill_value, dtype=None, order="K", subok=True, shape=None):
    a = _sa(a)
    return full(a.shape if shape is None else shape, fill_value, dtype or a._vd)


@handles(_np.linalg.norm)
def h_norm(x, ord=None, axis=None, keepdims=False):
    if ord not in (None, 2, "fro"):
        raise UnsupportedSymbolic("norm order")
    x = _sa(x)
    sq = _elementwise(lambda e: (abs(e) ** 2) if isinstance(e, Cx) and not e.is_real_syntactic() else (Cx.of(e).re if isinstance(e, Cx) else e) ** 2, x, vd=float)
    s = h_sum(sq, axis=axis, keepdims=keepdims)
    return ufunc_dispatch(_np.sqrt, "__call__", (s,), {})


# --------------------------------------------------------------------------- exact linear algebra stubs

def _det_list(M):
    n = len(M)
    if n == 1:
        return M[0][0]
    if n == 2:
        return M[0][0] * M[1][1] - M[0][1] * M[1][0]
    tot = None
    for j in range(n):
        if _is_zero_elem(M[0][j]):
            continue
        minor = [row[:j] + row[j + 1:] for row in M[1:]]
        t = M[0][j] * _det_list(minor)
        if j % 2:
            t = -t
        tot = t if tot is None else tot + t
    return tot if tot is not None else Alg(ZERO)


def _is_zero_elem(e):
    if isinstance(e, Alg):
        return e.is_zero_syntactic()
    if isinstance(e, Cx):
        return e.re.is_zero_syntactic() and e.im.is_zero_syntactic()
    return e == 0


def _batch(a):
    a = _sa(a)
    p = a.plain
    return a, p, p.shape[:-2]


@handles(_np.linalg.det)
def h_det(a):
    a, p, bs = _batch(a)
    vd = _np.result_type(a._vd, _np.float64)
    out = _np.empty(bs, dtype=object)
    for idx in _np.ndindex(*bs):
        out[idx] = _det_list([list(r) for r in p[idx]])
    out = _fix_elems(out, vd)
    return out[()] if out.ndim == 0 else SymArray(out, vd)


def _adj_list(M):
    n = len(M)
    if n == 1:
        return [[Alg.const(1)]]
    adj = [[None] * n for _ in range(n)]
    for i in range(n):
        for j in range(n):
            minor = [row[:j] + row[j + 1:] for k, row in enumerate(M) if k != i]
            c = _det_list(minor)
            adj[j][i] = -c if (i + j) % 2 else c
    return adj


@handles(_np.linalg.inv)
def h_inv(a):
    a, p, bs = _batch(a)
    n = p.shape[-1]
    vd = _np.result_type(a._vd, _np.float64)
    out = _np.empty(p.shape, dtype=object)
    for idx in _np.ndindex(*bs):
        M = [list(r) for r in p[idx]]
        # pull a common Laurent monomial out of the matrix (e.g. the 1/D of a previous inverse): inv(g N) = inv(N) / g
        g = _common_laurent(M)
        if g is not None:
            gi = Alg(Poly({tuple((v, -e) for v, e in g): 1}))
            M = [[x * gi for x in row] for row in M]
        d = _det_list(M)
        if bool(d == 0):
            raise _np.linalg.LinAlgError("Singular matrix")
        adj = _adj_list(M)
        d = _name_nonzero(d, "det")
        scale = (Alg.const(1) / d) if g is None else gi / d
        for i in range(n):
            for j in range(n):
                out[idx + (i, j)] = adj[i][j] * scale
    return SymArray(_fix_elems(out, vd), vd)


def _common_laurent(M):
    """monomial g with negative exponents only such that every entry of M is g * (polynomial without negative exponents); None if not needed / not applicable"""
    mins = {}
    for row in M:
        for x in row:
            if not isinstance(x, Alg) or x.special or x.d is not None:
                return None
            for m in x.n.t:
                for v, e in m:
                    if e < 0 and e < mins.get(v, 0):
                        mins[v] = e
    if not mins:
        return None
    return tuple(sorted(mins.items()))


def _name_nonzero(d, base):
    """give a non-zero polynomial value a name D (opaque unit variable with D == value known to the solver and to the
    normal form's unfolding): 1/D stays a Laurent monomial, which keeps inverse matrices polynomial"""
    if isinstance(d, Cx) or not isinstance(d, Alg) or d.d is not None or d.n.single_term() is not None or d.n.has_neg():
        return d
    P = cur()
    memo = P.__dict__.setdefault("_named", {})
    k = d.n.key()
    if k in memo:
        return memo[k]
    vid = fresh("def", base=base, nonzero=True)
    z = P.vars[vid].z
    P.add_def(z == d.n.z3())
    P.__dict__.setdefault("_defvals", {})[vid] = d.n
    P.__dict__["_unfold_in_cmp"] = True
    r = Alg.var(vid)
    memo[k] = r
    return r


@handles(_np.linalg.solve)
def h_solve(a, b):
    a = _sa(a)
    b = _sa(b)
    inv = h_inv(a)
    if b.ndim == a.ndim - 1:
        r = _np.matmul(inv, b[..., None])[..., 0]
    else:
        r = _np.matmul(inv, b)
    return r


@handles(_np.linalg.eigvalsh)
def h_eigvalsh(a, UPLO="L"):
    """contract: real eigenvalues w_1..w_n of the symmetric matrix: sum = trace, product = det (solver-side facts)."""
    a, p, bs = _batch(a)
    n = p.shape[-1]
    out = _np.empty(bs + (n,), dtype=object)
    P = cur()
    for idx in _np.ndindex(*bs):
        M = [list(r) for r in p[idx]]
        ws = [Alg.var(fresh("free", base="eig")) for _ in range(n)]
        tr = M[0][0]
        for i in range(1, n):
            tr = tr + M[i][i]
        sw = ws[0]
        for w in ws[1:]:
            sw = sw + w
        try:
            P.add_def((sw == (tr.re if isinstance(tr, Cx) else tr)).e, tier=1)
        except Exception:
            pass
        for i, w in enumerate(ws):
            out[idx + (i,)] = w
    return SymArray(out, _np.dtype(float))


def _gram_schmidt(vectors):
    """orthonormalise a list of (real) vectors given as lists of Alg; raises on dependence (fork decides)"""
    basis = []
    for v in vectors:
        w = list(v)
        for b in basis:
            c = None
            for x, y in zip(w, b):
                t = x * y
                c = t if c is None else c + t
            w = [x - c * y for x, y in zip(w, b)]
        n2 = None
        for x in w:
            t = x * x
            n2 = t if n2 is None else n2 + t
        nrm = alg_sqrt(n2)
        # contract: the input has full column rank (true for every matrix geometer passes to qr: it is built from a
        # non-zero plane vector); the norm of each residual is therefore strictly positive
        from .alg import _mark_positive
        _mark_positive(nrm)
        basis.append([x / nrm for x in w])
    return basis


@handles(_np.linalg.qr)
def h_qr(a, mode="reduced"):
    """contract stub: Q = Gram-Schmidt of the columns with a free sign per column, R = Q^T A"""
    a, p, bs = _batch(a)
    if a._vd.kind == "c":
        raise UnsupportedSymbolic("complex QR")
    m, n = p.shape[-2:]
    Q = _np.empty(bs + (m, n), dtype=object)
    R = _np.empty(bs + (n, n), dtype=object)
    for idx in _np.ndindex(*bs):
        cols = [[p[idx + (i, j)] for i in range(m)] for j in range(n)]
        qs = _gram_schmidt(cols)
        for j in range(n):
            sgn = _free_sign()
            for i in range(m):
                Q[idx + (i, j)] = qs[j][i] * sgn
            qs[j] = [x * sgn for x in qs[j]]
        for i in range(n):
            for j in range(n):
                if j < i:
                    R[idx + (i, j)] = Alg(ZERO)
                else:
                    t = None
                    for k in range(m):
                        u = qs[i][k] * cols[j][k]
                        t = u if t is None else t + u
                    R[idx + (i, j)] = t
    return SymArray(Q, _np.dtype(float)), SymArray(R, _np.dtype(float))


def _free_sign():
    """an arbitrary sign +-1 chosen by the environment (LAPACK): free variable e with e*e = 1"""
    P = cur()
    vid = fresh("sign", base="sgn", nonzero=True)
    z = P.vars[vid].z
    P.add_def(z * z == 1)
    P.rules[vid] = (2, Poly.const(1))
    return Alg.var(vid)


def _free_rotation(k):
    """arbitrary k x k orthogonal matrix for k <= 2 (k = 1: sign; k = 2: (c,s) rotation times optional reflection)"""
    if k == 1:
        return [[_free_sign()]]
    if k == 2:
        P = cur()
        cv = fresh("cos", base="rc")
        sv = fresh("sin", base="rs")
        zc, zs = P.vars[cv].z, P.vars[sv].z
        P.add_def(zc * zc + zs * zs == 1)
        P.rules[sv] = (2, Poly.const(1) - Poly.var(cv, 2))
        c, s = Alg.var(cv), Alg.var(sv)
        e = _free_sign()
        return [[c, -s * e], [s, c * e]]
    raise UnsupportedSymbolic("free orthogonal factor of size > 2")


SVD_RANK = {"rank": None}   # harness may fix the rank assumed for symbolic SVD inputs


@handles(_np.linalg.svd)
def h_svd(a, full_matrices=True, compute_uv=True, hermitian=False):
    """contract stub.  A (m x n) real with rank r assumed (SVD_RANK['rank'], default min(m, n) for full_matrices=False,
    and m for the null-space use m < n).  U's first r columns: orthonormal basis of the column space (Gram-Schmidt
    composed with an arbitrary orthogonal factor), Vh's last n-r rows: orthonormal basis of the kernel composed with an
    arbitrary orthogonal factor.  Only the parts geometer consumes are constrained; the rest is left unconstrained."""
    a, p, bs = _batch(a)
    if a._vd.kind == "c":
        raise UnsupportedSymbolic("complex SVD")
    m, n = p.shape[-2:]
    r = SVD_RANK["rank"] if SVD_RANK["rank"] is not None else min(m, n)
    kk = min(m, n)
    U = _np.empty(bs + ((m, m) if full_matrices else (m, kk)), dtype=object)
    Sg = _np.empty(bs + (kk,), dtype=object)
    Vh = _np.empty(bs + ((n, n) if full_matrices else (kk, n)), dtype=object)
    for idx in _np.ndindex(*bs):
        A = [[p[idx + (i, j)] for j in range(n)] for i in range(m)]
        # ---- column space basis from the first r independent columns (assumption: leading columns independent is
        # NOT assumed: we pick columns by forking on independence through Gram-Schmidt's norm != 0 test)
        cols = [[A[i][j] for i in range(m)] for j in range(n)]
        ub = _independent_gs(cols, r)
        rot = _free_rotation(r) if r <= 2 else None
        if rot is None:
            raise UnsupportedSymbolic("SVD stub with rank > 2 for U")
        ucols = [[sum_((ub[l][i] * rot[l][k] for l in range(r))) for i in range(m)] for k in range(r)]
        for k in range(U.shape[-1]):
            for i in range(m):
                U[idx + (i, k)] = ucols[k][i] if k < r else Alg.var(fresh("free", base="ufree"))
        for k in range(kk):
            Sg[idx + (k,)] = Alg.var(fresh("free", base="sv", positive=True)) if k < r else Alg(ZERO)
        # ---- kernel basis: orthonormal basis of the orthogonal complement of the row space
        rows = [A[i] for i in range(m)]
        rb = _independent_gs(rows, r)
        nk = n - r
        kb = _complement_basis(rb, n) if full_matrices else []
        if full_matrices and nk:
            rot2 = _free_rotation(nk) if nk <= 2 else None
            if rot2 is None:
                raise UnsupportedSymbolic("SVD stub with nullity > 2")
            kb = [[sum_((kb[l][j] * rot2[l][k] for l in range(nk))) for j in range(n)] for k in range(nk)]
        for k in range(Vh.shape[-2]):
            for j in range(n):
                if full_matrices and k >= r:
                    Vh[idx + (k, j)] = kb[k - r][j]
                else:
                    Vh[idx + (k, j)] = Alg.var(fresh("free", base="vfree"))
    f = _np.dtype(float)
    if not compute_uv:
        return SymArray(Sg, f)
    return SymArray(U, f), SymArray(Sg, f), SymArray(Vh, f)


def sum_(it):
    tot = None
    for x in it:
        tot = x if tot is None else tot + x
    return tot if tot is not None else Alg(ZERO)


def _independent_gs(vectors, r):
    """Gram-Schmidt picking r independent vectors (forks on 'residual == 0')"""
    basis = []
    for v in vectors:
        if len(basis) == r:
            break
        w = [Cx.of(x).re if isinstance(x, Cx) else Alg.of(x) for x in v]
        for b in basis:
            c = sum_(x * y for x, y in zip(w, b))
            w = [x - c * y for x, y in zip(w, b)]
        n2 = sum_(x * x for x in w)
        if bool(n2 == 0):
            continue
        nrm = alg_sqrt(n2)
        from .alg import _mark_positive
        _mark_positive(nrm)
        basis.append([x / nrm for x in w])
    if len(basis) < r:
        from .state import PathAbort
        raise PathAbort("SVD stub: matrix rank below the assumed rank")
    return basis


def _complement_basis(rb, n):
    """orthonormal basis of the orthogonal complement of span(rb) in R^n via Gram-Schmidt on unit vectors"""
    basis = [list(b) for b in rb]
    out = []
    need = n - len(rb)
    for k in range(n):
        if len(out) == need:
            break
        e = [Alg.const(1 if j == k else 0) for j in range(n)]
        w = e
        for b in basis:
            c = sum_(x * y for x, y in zip(w, b))
            w = [x - c * y for x, y in zip(w, b)]
        n2 = sum_(x * x for x in w)
        if bool(n2 == 0):
            continue
        nrm = alg_sqrt(n2)
        from .alg import _mark_positive
        _mark_positive(nrm)
        w = [x / nrm for x in w]
        basis.append(w)
        out.append(w)
    return out


# --------------------------------------------------------------------------- creation functions of the proxy

def _const_elem(v, dt):
    return lift(v, dt.kind)


def full(shape, fill_value, dtype=None, order="C", **kw):
    if dtype is None:
        dtype = _np.asarray(shadow(fill_value)).dtype
    dt = _np.dtype(dtype)
    if isinstance(shape, (int, _np.integer)):
        shape = (int(shape),)
    a = _np.empty(tuple(int(s) for s in shape), dtype=object)
    e = _const_elem(fill_value, dt) if not is_sym_scalar(fill_value) else lift(fill_value, dt.kind)
    a.fill(e)
    if a.ndim == 0:
        a[()] = e
    return SymArray(a, dt)


def zeros(shape, dtype=float, order="C", **kw):
    return full(shape, 0, dtype if dtype is not None else float)


def ones(shape, dtype=float, order="C", **kw):
    return full(shape, 1, dtype if dtype is not None else float)


def _numeric_dtype(dt):
    try:
        return _np.dtype(dt).kind in "biufc"
    except TypeError:
        return False


class _Generic(type):
    def __instancecheck__(cls, inst):
        return isinstance(inst, _np.generic) or is_sym_scalar(inst)


class generic(metaclass=_Generic):
    pass


class SymNP(types.ModuleType):
    """module proxy: numpy for concrete data, the symbolic engine for symbolic data"""

    def __init__(self):
        super().__init__("symnp")
        self.__dict__["_np"] = _np

    def __getattr__(self, name):
        return getattr(_np, name)

    # ---- creation: inside a symbolic session every freshly created numeric array can hold symbolic scalars
    @staticmethod
    def zeros(shape, dtype=float, order="C", **kw):
        if state.active() and _numeric_dtype(dtype):
            return zeros(shape, dtype)
        return _np.zeros(shape, dtype, order, **kw)

    @staticmethod
    def ones(shape, dtype=None, order="C", **kw):
        if state.active() and _numeric_dtype(dtype or float):
            return ones(shape, dtype or float)
        return _np.ones(shape, dtype, order, **kw)

    @staticmethod
    def empty(shape, dtype=float, order="C", **kw):
        if state.active() and _numeric_dtype(dtype):
            return zeros(shape, dtype)
        return _np.empty(shape, dtype, order, **kw)

    @staticmethod
    def full(shape, fill_value, dtype=None, order="C", **kw):
        if state.active():
            return full(shape, fill_value, dtype)
        return _np.full(shape, fill_value, dtype, order, **kw)

    @staticmethod
    def eye(N, M=None, k=0, dtype=float, order="C", **kw):
        if state.active() and _numeric_dtype(dtype):
            return to_sym(_np.eye(N, M, k, dtype=dtype))
        return _np.eye(N, M, k, dtype, order, **kw)

    @staticmethod
    def identity(n, dtype=None, **kw):
        if state.active():
            return to_sym(_np.identity(n, dtype=dtype))
        return _np.identity(n, dtype, **kw)

    @staticmethod
    def array(obj, dtype=None, *, copy=True, order="K", subok=False, ndmin=0, like=None):
        if state.active() and is_symbolic(obj):
            if isinstance(obj, SymArray):
                r = obj if dtype is None or _np.dtype(dtype) == obj._vd else obj.astype(dtype)
                if copy and r is obj:
                    r = obj.copy()
            else:
                r = to_sym(obj, dtype)
            while r.ndim < ndmin:
                r = r[None]
            return r
        if hasattr(obj, "array") and hasattr(obj, "_covariant_indices") and not isinstance(obj, _ND):
            obj = obj.array
        return _np.array(obj, dtype=dtype, copy=copy, order=order, subok=subok, ndmin=ndmin)

    @staticmethod
    def asarray(a, dtype=None, order=None, **kw):
        if state.active() and is_symbolic(a):
            if isinstance(a, SymArray) and (dtype is None or _np.dtype(dtype) == a._vd):
                return a
            return to_sym(a, dtype)
        return _np.asarray(a, dtype=dtype, order=order, **kw)

    asanyarray = asarray

    @staticmethod
    def isscalar(x):
        return is_sym_scalar(x) or _np.isscalar(x)

    @staticmethod
    def fromfunction(*a, **k):
        return _np.fromfunction(*a, **k)

    @staticmethod
    def promote_types(t1, t2):
        def fix(t):
            if t is Alg:
                return _np.float64
            if t is Cx:
                return _np.complex128
            if t is SymBool:
                return _np.bool_
            return t
        return _np.promote_types(fix(t1), fix(t2))

    generic = generic

    @property
    def pi(self):
        if state.active():
            from .trig import pi_const
            return pi_const()
        return _np.pi

    # functions whose dispatcher does not look inside python lists of scalars
    @staticmethod
    def diag(v, k=0):
        if state.active() and is_symbolic(v):
            return function_dispatch(_np.diag, (), (to_sym(v), k), {})
        return _np.diag(v, k)

    @staticmethod
    def stack(arrays, axis=0, **kw):
        if state.active() and is_symbolic(list(arrays)):
            arrays = [a if isinstance(a, SymArray) else to_sym(a) for a in arrays]
            return function_dispatch(_np.stack, (), (arrays,), dict(axis=axis, **kw))
        return _np.stack(arrays, axis=axis, **kw)

    @staticmethod
    def append(arr, values, axis=None):
        if state.active() and (is_symbolic(arr) or is_symbolic(values)):
            return function_dispatch(_np.append, (), (_sa(arr), _sa(values) if is_symbolic(values) else values), dict(axis=axis))
        return _np.append(arr, values, axis=axis)

    @staticmethod
    def isclose(a, b, rtol=1e-05, atol=1e-08, equal_nan=False):
        if state.active() and (is_symbolic(a) or is_symbolic(b)):
            return h_isclose(a, b, rtol, atol)
        return _np.isclose(a, b, rtol, atol, equal_nan)

    @staticmethod
    def allclose(a, b, rtol=1e-05, atol=1e-08, equal_nan=False):
        if state.active() and (is_symbolic(a) or is_symbolic(b)):
            return h_allclose(a, b, rtol, atol)
        return _np.allclose(a, b, rtol, atol, equal_nan)

    @staticmethod
    def min(a, axis=None, **kw):
        if state.active() and is_symbolic(a):
            return h_min(_sa(a), axis=axis, keepdims=kw.get("keepdims", False))
        return _np.min(a, axis=axis, **kw)

    @staticmethod
    def max(a, axis=None, **kw):
        if state.active() and is_symbolic(a):
            return h_max(_sa(a), axis=axis, keepdims=kw.get("keepdims", False))
        return _np.max(a, axis=axis, **kw)

    @staticmethod
    def sum(a, axis=None, **kw):
        if state.active() and is_symbolic(a):
            return h_sum(_sa(a), axis=axis, keepdims=kw.get("keepdims", False))
        return _np.sum(a, axis=axis, **kw)

    @staticmethod
    def average(a, axis=None, weights=None, **kw):
        if state.active() and (is_symbolic(a) or is_symbolic(weights)):
            return h_average(_sa(a), axis=axis, weights=weights)
        return _np.average(a, axis=axis, weights=weights, **kw)

    @staticmethod
    def cross(a, b, *args, **kw):
        if state.active() and (is_symbolic(a) or is_symbolic(b)):
            return function_dispatch(_np.cross, (), (_sa(a), _sa(b), *args), kw)
        return _np.cross(a, b, *args, **kw)

    @staticmethod
    def broadcast_arrays(*args, **kw):
        if state.active() and is_symbolic(list(args)):
            args = [a if isinstance(a, (SymArray,)) or not is_symbolic(a) else to_sym(a) for a in args]
            return function_dispatch(_np.broadcast_arrays, (), tuple(args), kw)
        return _np.broadcast_arrays(*args, **kw)


symnp = SymNP()


def csqrt(x):
    """numpy.lib.scimath.sqrt on symbolic data: complex result only where the argument is negative"""
    if not (state.active() and is_symbolic(x)):
        from numpy.lib.scimath import sqrt as _cs
        return _cs(x)
    from .alg import cx_sqrt
    if isinstance(x, (Alg, Cx)):
        r = cx_sqrt(x)
        if isinstance(x, Alg) and r.is_real_syntactic():
            return r.re
        return r
    a = _sa(x)
    if a._vd.kind == "c":
        return _elementwise(cx_sqrt, a, vd=complex)
    # real input: scimath converts to complex iff any element is negative
    res = _np.empty(a.shape, dtype=object)
    anyc = False
    p = a.plain
    for idx in _np.ndindex(*a.shape):
        r = cx_sqrt(p[idx])
        res[idx] = r
        if not r.is_real_syntactic():
            anyc = True
    if anyc:
        return SymArray(res, _np.dtype(complex))
    for idx in _np.ndindex(*a.shape):
        res[idx] = res[idx].re
    return SymArray(res, _np.dtype(float))
