"""Linear abstraction of non-linear real arithmetic with zero-product and sign axioms.

Every product of >= 2 non-numeral factors becomes a fresh real variable y (one per multiset of factors).  Axioms added
(all valid over the reals, so `unsat` of the abstraction implies `unsat` of the original):
    y = 0  <=>  some factor = 0
    y > 0 / y >= 0 when every factor occurs an even number of times
The abstraction is only ever used to conclude `unsat`."""
from __future__ import annotations

import z3


class Abstraction:
    def __init__(self):
        self.cache = {}
        self.prod = {}
        self.factors_of = {}
        self.keepalive = []
        self.budget = 60000
        self.axioms = []
        self.n = 0

    def term(self, e):
        i = e.get_id()
        r = self.cache.get(i)
        if r is not None:
            return r
        self.visited = getattr(self, "visited", 0) + 1
        if self.visited > self.budget:
            raise OverflowError("abstraction budget exceeded")
        r = self._term(e)
        self.cache[i] = r
        self.keepalive.append(e)      # AST ids are only unique while the AST is alive: pin every cached term
        self.keepalive.append(r)
        return r

    def _term(self, e):
        if not z3.is_app(e) or e.num_args() == 0:
            return e
        k = e.decl().kind()
        args = [self.term(a) for a in e.children()]
        if k == z3.Z3_OP_MUL:
            coef, facs = self._flatten(e)
            if not facs:
                return coef
            if len(facs) == 1:
                return facs[0] if self._is_one(coef) else coef * facs[0]
            y = self._product(facs)
            return y if self._is_one(coef) else coef * y
        if k == z3.Z3_OP_DIV:
            a, b = args
            if z3.is_rational_value(b) or z3.is_int_value(b):
                return a / b
            key = ("div", a.get_id(), b.get_id())
            y = self.prod.get(key)
            if y is None:
                self.n += 1
                y = z3.Real(f"absq!{self.n}")
                self.prod[key] = y
                self._keep = getattr(self, "_keep", []) + [a, b]
                # q*b = a abstracted again as product
                self.axioms.append(z3.Implies(b != 0, self._product([y, b]) == a))
            return y
        if k == z3.Z3_OP_POWER:
            base, ex = args
            if z3.is_int_value(ex) or z3.is_rational_value(ex):
                try:
                    n = int(str(ex))
                    if n >= 2:
                        return self._product([base] * n)
                except Exception:
                    pass
            return e.decl()(*args)
        try:
            return e.decl()(*args)
        except Exception:
            return e

    @staticmethod
    def _is_one(c):
        return z3.is_rational_value(c) and c.numerator_as_long() == 1 and c.denominator_as_long() == 1

    def _flatten(self, e):
        """(numeric coefficient, list of abstracted non-numeral atomic factors) of a product term"""
        coef = z3.RealVal(1)
        facs = []
        stack = [e]
        while stack:
            x = stack.pop()
            self.visited = getattr(self, "visited", 0) + 1
            if self.visited > self.budget:
                raise OverflowError("abstraction budget exceeded")
            if z3.is_rational_value(x) or z3.is_int_value(x):
                coef = z3.simplify(coef * x)
            elif z3.is_app(x) and x.decl().kind() == z3.Z3_OP_MUL:
                stack.extend(x.children())
            elif z3.is_app(x) and x.decl().kind() == z3.Z3_OP_UMINUS:
                coef = z3.simplify(-coef)
                stack.append(x.children()[0])
            else:
                t = self.term(x)
                base = self.factors_of.get(t.get_id())
                if base is not None:
                    facs.extend(base)
                else:
                    facs.append(t)
        return coef, facs

    def _product(self, factors):
        fs = sorted(factors, key=lambda a: a.get_id())
        key = tuple(a.get_id() for a in fs)
        y = self.prod.get(key)
        if y is not None:
            return y
        self.n += 1
        y = z3.Real(f"absm!{self.n}")
        self.prod[key] = y
        self.keepalive.extend(fs)
        self.keepalive.append(y)
        self.factors_of[y.get_id()] = list(fs)
        self._keep = getattr(self, "_keep", []) + fs
        distinct = {}
        for a in fs:
            distinct.setdefault(a.get_id(), [a, 0])[1] += 1
        self.axioms.append((y == 0) == z3.Or([d[0] == 0 for d in distinct.values()]))
        if all(c % 2 == 0 for _, c in distinct.values()):
            self.axioms.append(y >= 0)
        elif len(distinct) <= 3:
            # sign rule: sign(y) = product of signs of the odd factors
            odd = [d[0] for d in distinct.values() if d[1] % 2]
            neg = None
            for a in odd:
                na = a < 0
                neg = na if neg is None else z3.Xor(neg, na)
            nz = z3.And([d[0] != 0 for d in distinct.values()])
            self.axioms.append(z3.Implies(nz, (y < 0) == neg))
        # sub-products: y = (product of first two) * rest  -- gives some sharing between monomials
        return y


def abstract(formulas, A=None):
    A = A or Abstraction()
    A.visited = 0
    out = [A.term(f) for f in formulas]
    return out + A.axioms
