"""Loads the *unmodified* geometer from /repo's working tree and, in this process only, replaces the module global
`np` of each geometer module by the symbolic proxy."""
from __future__ import annotations

import importlib
import os
import sys

import numpy as _np

REPO = os.environ.get("GEOMETER_REPO", "/repo")
MODULES = ["geometer.utils.math", "geometer.utils.indexing", "geometer.base", "geometer.point", "geometer.transformation",
           "geometer.curve", "geometer.operators", "geometer.shapes", "geometer.utils.ops_dispatch", "geometer.exceptions"]

_installed = False


def load_plain():
    if REPO not in sys.path:
        sys.path.insert(0, REPO)
    import geometer
    assert os.path.realpath(geometer.__file__).startswith(os.path.realpath(REPO)), geometer.__file__
    return geometer


def install():
    """import geometer from REPO and install the proxy (idempotent)"""
    global _installed
    g = load_plain()
    if _installed:
        return g
    from .symnp import symnp, csqrt
    from .alg import is_sym_scalar
    mods = {}
    for name in MODULES:
        m = importlib.import_module(name)
        mods[name] = m
        if getattr(m, "np", None) is _np:
            m.np = symnp
        if hasattr(m, "csqrt"):
            m.csqrt = csqrt
    gm = mods["geometer.utils.math"]
    orig = gm.is_numerical_dtype

    def is_numerical_dtype(dtype):
        return orig(dtype)

    # tolerances: idealised (exact arithmetic) -- see DESIGN 2.7; the isclose handler ignores rtol/atol
    # process-wide caches are filled concretely (plain int8 arrays serve both symbolic and concrete runs)
    gb = mods["geometer.base"]
    for n in (2, 3, 4):
        gb.LeviCivitaTensor(n)
    _installed = True
    return g


def purge_symbolic_caches():
    """drop cache entries created during a symbolic path (they would leak symbolic arrays into concrete runs)"""
    from .symarr import SymArray
    gb = sys.modules.get("geometer.base")
    if gb is None:
        return
    for cls in (gb.LeviCivitaTensor, gb.KroneckerDelta):
        for k in [k for k, v in cls._cache.items() if isinstance(v, SymArray)]:
            del cls._cache[k]


def source_files():
    out = []
    for name in MODULES:
        m = sys.modules.get(name)
        if m is not None and getattr(m, "__file__", None):
            out.append(m.__file__)
    return out
