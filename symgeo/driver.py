"""check driver: runs the cases of one property in parallel, aggregates, writes evidence, prints verdict lines."""
from __future__ import annotations

import argparse
import importlib
import json
import multiprocessing as mp
import os
import re
import sys
import time
import traceback

VERIF = os.path.dirname(os.path.dirname(os.path.abspath(__file__)))
EXIT_OK, EXIT_VIOLATION, EXIT_INCONCLUSIVE, EXIT_HARNESS = 0, 1, 2, 3


class Case:
    def __init__(self, name, fn, tiers=("quick", "thorough"), mode="real", max_paths=None, timeouts=None,
                 setup=None, weight=1, kind="symbolic"):
        self.name, self.fn, self.tiers, self.mode = name, fn, tiers, mode
        self.max_paths, self.timeouts, self.setup, self.weight, self.kind = max_paths, timeouts, setup, weight, kind


def _load(pid):
    sys.path.insert(0, VERIF)
    return importlib.import_module(f"harness.{pid}")


def _cases(mod, pid, tier, seed):
    """cases of a property with the tier overrides of /verif/harness/attempt_overrides.json applied: cases that were built but are
    not decided within budget on the unchanged tree run only in the 'attempt' tier (nothing is claimed for them)"""
    cs = mod.cases(tier, seed)
    p = os.path.join(VERIF, "harness", "attempt_overrides.json")
    if os.path.exists(p):
        ov = json.load(open(p)).get(pid, {})
        for c in cs:
            if c.name in ov:
                c.tiers = ("attempt",)
    return cs


def _run_one(args):
    pid, cname, tier, seed = args
    t0 = time.time()
    try:
        from symgeo import loader
        loader.install()
        mod = _load(pid)
        case = next(c for c in _cases(mod, pid, tier, seed) if c.name == cname)
        if case.kind == "custom":
            d = case.fn(tier, seed)
            d.setdefault("name", cname)
            d["wall"] = time.time() - t0
            return d
        from symgeo.explore import run_case
        if case.setup:
            case.setup()
        r = run_case(case.name, case.fn, tier=tier, mode=case.mode, seed=seed, max_paths=case.max_paths, timeouts=case.timeouts)
        d = r.to_dict()
        d["wall"] = time.time() - t0
        return d
    except BaseException as e:  # harness error
        return {"name": cname, "harness_error": f"{type(e).__name__}: {e}", "trace": traceback.format_exc(limit=8), "wall": time.time() - t0}


def _run_parallel(pid, tier, jobs, njobs, case_timeout):
    """one fresh interpreter per case (z3 + fork from a threaded parent deadlocks)"""
    import shutil
    import subprocess
    import tempfile
    from concurrent.futures import ThreadPoolExecutor
    if not case_timeout:
        case_timeout = 900 if tier == "quick" else 5400
    tmpd = tempfile.mkdtemp(prefix="symgeo_")

    def one(job):
        _, cname, _, seed = job
        out = os.path.join(tmpd, cname.replace("/", "_") + ".json")
        cmd = [sys.executable, "-m", "symgeo.driver", pid, "--tier", tier, "--case", cname, "--worker", out]
        env = dict(os.environ, VERIF_SEED=str(seed))
        t0 = time.time()
        try:
            p = subprocess.run(cmd, cwd=VERIF, env=env, capture_output=True, text=True, timeout=case_timeout)
            if os.path.exists(out):
                return json.load(open(out))
            return {"name": cname, "harness_error": f"worker exit {p.returncode}", "trace": (p.stderr or "")[-3000:], "wall": time.time() - t0}
        except subprocess.TimeoutExpired:
            return {"name": cname, "paths": 0, "obligations": 0, "wall": time.time() - t0,
                    "inconclusive": [{"case": cname, "obligation": "*", "why": f"case wall-time limit {case_timeout}s exceeded"}]}

    try:
        with ThreadPoolExecutor(max_workers=njobs) as ex:
            return list(ex.map(one, jobs))
    finally:
        shutil.rmtree(tmpd, ignore_errors=True)


def load_known():
    p = os.path.join(VERIF, "known_findings.json")
    if not os.path.exists(p):
        return []
    return json.load(open(p)).get("findings", [])


def is_known(known, pid, case, obligation):
    for k in known:
        if k.get("status") != "known":
            continue
        if k["property"] == pid and k["case"] == case:
            if k.get("obligation_regex"):
                import re
                if re.search(k["obligation_regex"], obligation):
                    return k
            elif k.get("obligation") in (None, "*", obligation):
                return k
    return None


def main(argv=None):
    ap = argparse.ArgumentParser()
    ap.add_argument("pid")
    ap.add_argument("--tier", default=os.environ.get("VERIF_TIER", "quick"))
    ap.add_argument("--replay")
    ap.add_argument("--case")
    ap.add_argument("--jobs", type=int, default=int(os.environ.get("VERIF_JOBS", "16")))
    ap.add_argument("--no-evidence", action="store_true")
    ap.add_argument("--worker", help="internal: run one case and dump its result as JSON to this file")
    ap.add_argument("--case-timeout", type=int, default=int(os.environ.get("VERIF_CASE_TIMEOUT", "0") or 0))
    a = ap.parse_args(argv)
    seed = int(os.environ.get("VERIF_SEED", "0") or 0)
    pid = a.pid
    if a.replay:
        return replay(pid, a.replay)
    t0 = time.time()
    from symgeo import loader
    loader.install()
    mod = _load(pid)
    cases = [c for c in _cases(mod, pid, a.tier, seed) if a.tier in c.tiers and (a.case is None or c.name == a.case)]
    jobs = [(pid, c.name, a.tier, seed) for c in cases]
    results = []
    if a.worker:
        r = _run_one(jobs[0]) if jobs else {"name": a.case, "harness_error": "case not found in this tier"}
        json.dump(r, open(a.worker, "w"), default=str)
        return 0
    if a.jobs <= 1 or len(jobs) <= 1:
        results = [_run_one(j) for j in jobs]
    else:
        results = _run_parallel(pid, a.tier, jobs, a.jobs, a.case_timeout)
    results.sort(key=lambda r: r["name"])
    known = load_known()
    code = EXIT_OK
    lines = []
    viol_n = 0
    known_hit = []
    written = set()
    os.makedirs(os.path.join(VERIF, "replays", pid), exist_ok=True)
    for r in results:
        if r.get("harness_error"):
            lines.append(f"HARNESS-ERROR property={pid} case={r['name']} {r['harness_error']}")
            sys.stderr.write(r.get("trace", "") + "\n")
            code = max(code, EXIT_HARNESS)
            continue
        for v in r.get("violations", []):
            k = is_known(known, pid, v["case"], v["obligation"])
            path = os.path.join(VERIF, "replays", pid, re.sub(r"[^A-Za-z0-9_.,:=\[\]()+*^-]", "_", f"{v['case']}__{v['obligation']}.json"))
            if k:
                known_hit.append((k, v))
                continue
            if path in written:
                continue
            written.add(path)
            json.dump({"property": pid, "case": v["case"], "obligation": v["obligation"], "env": v["env"], "note": v.get("note"),
                       "replay": v.get("replay")}, open(path, "w"), indent=1)
            lines.append(f"VIOLATION property={pid} replay={path}")
            viol_n += 1
            code = EXIT_VIOLATION
        if r.get("unconfirmed"):
            for u in r["unconfirmed"]:
                lines.append(f"UNCONFIRMED property={pid} case={u['case']} obligation={u['obligation']} (solver model does not replay on the real code: encoding/stub suspect) env={u['env']}")
            code = max(code, EXIT_HARNESS) if code != EXIT_VIOLATION else code
        if "ob_total" in r and r.get("ob_total", 0) == 0 and r.get("ob_other_property", 0) == 0 and not r.get("violations"):
            # vacuity guard: every path of the case was dropped (stub assumption not met / infeasible) before reaching an obligation
            r.setdefault("inconclusive", []).append({"case": r.get("name"), "obligation": "*", "why": "vacuous: no path reached an obligation; path outcomes " + json.dumps(r.get("outcomes", {}))})
        if r.get("inconclusive"):
            for u in r["inconclusive"]:
                lines.append(f"INCONCLUSIVE property={pid} case={u['case']} obligation={u['obligation']} {u.get('why','')}")
            if code == EXIT_OK:
                code = EXIT_INCONCLUSIVE
        if r.get("unsupported"):
            for u in r["unsupported"]:
                lines.append(f"UNSUPPORTED property={pid} case={u['case']} {u['what']} at {u.get('where')}")
            if code == EXIT_OK:
                code = EXIT_HARNESS
        for e in r.get("errors", []):
            lines.append(f"ERROR property={pid} case={r['name']} {e}")
            if code == EXIT_OK:
                code = EXIT_HARNESS
    seenk = set()
    for k, v in known_hit:
        kk = (k["case"], k.get("obligation") or k.get("obligation_regex"))
        if kk in seenk:
            continue
        seenk.add(kk)
        lines.append(f"KNOWN-FINDING: property={pid} case={k['case']} obligation={k.get('obligation') or k.get('obligation_regex')} {k.get('what','')}")
    # every listed known finding of this property must still be observed? (not required) -- report those not seen
    wall = time.time() - t0
    if not a.no_evidence and a.case is None:
        write_evidence(pid, a.tier, seed, results, wall, viol_n, mod, known_hit)
    for l in lines:
        print(l)
    tot_ob = sum(r.get("obligations", 0) for r in results)
    tot_paths = sum(r.get("paths", 0) for r in results)
    print(f"[{pid}/{a.tier}] cases={len(results)} paths={tot_paths} obligations={tot_ob} violations={viol_n} known={len(seenk)} exit={code} wall={wall:.1f}s")
    return code


def write_evidence(pid, tier, seed, results, wall, viol_n, mod, known_hit):
    from symgeo import loader
    paths = sum(r.get("paths", 0) for r in results)
    forks = sum(r.get("forks", 0) for r in results)
    obs = sum(r.get("obligations", 0) for r in results)
    incon = sum(len(r.get("inconclusive", [])) for r in results)
    viol = sum(len(r.get("violations", [])) for r in results)
    by_step = {}
    for r in results:
        for k, v in r.get("by_step", {}).items():
            by_step[k] = by_step.get(k, 0) + v
    samples = []
    for r in results:
        for s in r.get("samples", [])[:2]:
            samples.append(s)
    outcomes = {}
    for r in results:
        for k, v in r.get("outcomes", {}).items():
            outcomes[k] = outcomes.get(k, 0) + v
    extra = getattr(mod, "EVIDENCE", {})
    ran = {r["name"] for r in results}
    allc = _cases(mod, pid, tier, seed)
    ovp = os.path.join(VERIF, "harness", "attempt_overrides.json")
    ov = json.load(open(ovp)).get(pid, {}) if os.path.exists(ovp) else {}
    attempt_only = {c.name: ov.get(c.name, "built, not decided within budget on the unchanged tree") for c in allc if tuple(c.tiers) == ("attempt",)}
    other_tier = sorted(c.name for c in allc if c.name not in ran and c.name not in attempt_only)
    ev = {
        "property_id": pid,
        "tier": tier,
        "seed": seed,
        "level": "model_checking",
        "coverage": {
            "states": max(paths, 1),
            "transitions": max(forks + paths, 1),
            "traces_validated_against_impl": sum(r.get("validated", 0) for r in results),
            "samples": samples[:24] or [{"note": "no obligations ran"}],
            "evaluations": max(sum(r.get("ob_total", 0) for r in results), 1),
            "distinct_nontrivial": obs,
            "rule": "one evaluation = one require() reached on one explored path of the real code; distinct = distinct (obligation, path condition) pairs actually sent to the discharge ladder (cache misses); non-trivial = not a constant",
            "obligations": obs,
            "discharged": obs - incon - viol,
            "discharge_steps": by_step,
            "paths_explored": paths,
            "fork_decisions": forks,
            "path_outcomes": outcomes,
            "reachability": {k: sum(r.get("reach", {}).get(k, 0) for r in results) for k in ("sat", "unknown", "unsat", "unchecked")},
            "witness_validation_mismatches": sum(len(r.get("validation_mismatch", [])) for r in results),
            "solver_time_s": round(sum(r.get("solver_time", 0.0) for r in results), 2),
            "solvers": "z3 %s (python API); cvc5 cross-check in thorough tier" % _z3v(),
            "cvc5_cross_check": {k: sum(r.get("cross", {}).get(k, 0) for r in results) for k in ("agree", "disagree", "skipped")},
            "cases": [{"name": r["name"], "paths": r.get("paths"), "obligations": r.get("obligations"), "wall_s": round(r.get("wall", 0), 2),
                       "outcomes": r.get("outcomes"), **({"detail": r["detail"]} if "detail" in r else {})} for r in results],
            "functions_encoded": extra.get("functions", []),
            "bounds": extra.get("bounds", ""),
            "outside": extra.get("outside", "") + ("; the cases listed under not_claimed_attempt_tier were built but are not decided on the unchanged tree: "
                                                   "whatever 'bounds' says about them is NOT part of the claim" if attempt_only else ""),
            "not_claimed_attempt_tier": attempt_only,
            "cases_only_in_other_tier": other_tier,
            "source_files": loader.source_files(),
            "inconclusive": incon,
            "bug_hunt_only": {"searched": sum(r.get("hunted", 0) for r in results), "not_refuted": sum(r.get("not_refuted", 0) for r in results),
                              "note": "bounded counterexample search on degenerate paths whose infeasibility the solver cannot decide; outside the claim"},
            "known_findings_observed": sorted({f"{k['case']}/{k.get('obligation') or k.get('obligation_regex')}" for k, _ in known_hit}),
            "lemmas_substituted": sorted({l for r in results for l in r.get("lemmas", [])}),
        },
        "assumptions": extra.get("assumptions", []) + [
            "exact real arithmetic: floating-point rounding is outside the claim; tolerances idealised to 0 (DESIGN 2.7)",
            "numpy structural functions (einsum, indexing, stack, ...) are executed, value-level primitives are modelled (DESIGN 2.4/2.5)",
        ],
        "wall_s": round(wall, 2),
        "violations": viol_n,
    }
    os.makedirs(os.path.join(VERIF, "evidence"), exist_ok=True)
    json.dump(ev, open(os.path.join(VERIF, "evidence", f"{pid}.json"), "w"), indent=1, default=str)


def _z3v():
    import z3
    return z3.get_version_string()


def replay(pid, path):
    from symgeo import loader
    loader.install()
    mod = _load(pid)
    rec = json.load(open(path))
    from fractions import Fraction
    env = {k: Fraction(v) for k, v in rec["env"].items()}
    from symgeo.explore import Runner, Budget
    for tier in ("thorough", "quick"):
        cs = [c for c in _cases(mod, pid, tier, 0) if c.name == rec["case"]]
        if cs:
            break
    if not cs:
        print(f"replay: case {rec['case']} not found")
        return EXIT_HARNESS
    if cs[0].kind == "custom":
        d = cs[0].fn("quick", 0)
        hit = [v for v in d.get("violations", []) if v.get("obligation") == rec["obligation"]]
        print(json.dumps(hit[:1], default=str))
        if hit:
            print(f"VIOLATION property={pid} replay={path}")
            return EXIT_VIOLATION
        print("replay: obligation holds on this tree")
        return EXIT_OK
    r = Runner(cs[0].name, cs[0].fn, Budget("quick"))
    ok, info = r.replay(env, rec["obligation"])
    print(json.dumps(info, default=str))
    if ok:
        print(f"VIOLATION property={pid} replay={path}")
        return EXIT_VIOLATION
    print("replay: obligation holds on this tree")
    return EXIT_OK


if __name__ == "__main__":
    sys.exit(main())
