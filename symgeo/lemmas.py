"""Lemma substitution (DESIGN section 8): library helpers replaced by their *proved* specification on symbolic data.

is_multiple(a, b, axis)  ==  all 2x2 minors of (a; b) along `axis` vanish  (including a = 0 or b = 0)
The equivalence is proved against the real implementation in C20 (cases is_multiple_*); here the specification is
used so that `==` of projective objects costs no path forks.  Concrete data still runs the real function."""
from __future__ import annotations

import sys

import numpy as _np

from . import state
from .alg import TRUE, SymBool
from .symarr import SymArray, is_symbolic, to_sym

_ORIG = {}
ENABLED = {"is_multiple": False}


def is_multiple_spec(a, b, axis=None, rtol=1.0e-5, atol=1.0e-8):
    orig = _ORIG["is_multiple"]
    if not (state.active() and ENABLED["is_multiple"] and (is_symbolic(a) or is_symbolic(b))):
        return orig(a, b, axis=axis, rtol=rtol, atol=atol)
    state.cur().lemmas_used.add("is_multiple == vanishing 2x2 minors (proved in C20)")
    A = a if isinstance(a, SymArray) else (to_sym(a) if is_symbolic(a) else _np.asarray(a))
    B = b if isinstance(b, SymArray) else (to_sym(b) if is_symbolic(b) else _np.asarray(b))
    pa = A.plain if isinstance(A, SymArray) else A.astype(object)
    pb = B.plain if isinstance(B, SymArray) else B.astype(object)
    pa, pb = _np.broadcast_arrays(pa, pb)
    if axis is None:
        pa, pb = pa.reshape(-1), pb.reshape(-1)
        ax = (0,)
    elif isinstance(axis, (tuple, list)):
        ax = tuple(int(x) % pa.ndim for x in axis)
    else:
        ax = (int(axis) % pa.ndim,)
    keep = [i for i in range(pa.ndim) if i not in ax]
    ta = _np.transpose(pa, keep + list(ax)).reshape(tuple(pa.shape[i] for i in keep) + (-1,))
    tb = _np.transpose(pb, keep + list(ax)).reshape(ta.shape)
    out = _np.empty(ta.shape[:-1], dtype=object)
    n = ta.shape[-1]
    for idx in _np.ndindex(*out.shape):
        u, v = ta[idx], tb[idx]
        r = TRUE
        for i in range(n):
            for j in range(i + 1, n):
                r = r & (u[i] * v[j] - u[j] * v[i] == 0)
        out[idx] = r
    if out.ndim == 0:
        return out[()]
    return SymArray(out, _np.dtype(bool))


def install():
    if "is_multiple" in _ORIG:
        return
    import geometer.utils.math as gm
    _ORIG["is_multiple"] = gm.is_multiple
    for name in ("geometer.utils.math", "geometer.utils", "geometer.base", "geometer.point", "geometer.shapes", "geometer.curve"):
        m = sys.modules.get(name)
        if m is not None and getattr(m, "is_multiple", None) is _ORIG["is_multiple"]:
            m.is_multiple = is_multiple_spec


def use_is_multiple_lemma(on=True):
    install()
    ENABLED["is_multiple"] = on
