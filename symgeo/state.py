"""Per-path execution state of the symbolic engine (SymGeo).

One `PathState` exists per explored path.  It owns the variable registry
(input variables and tower variables introduced by the execution), the
reduction rules of the normal form, the tiered constraint store and the
decision prefix that drives re-execution.
"""
from __future__ import annotations

import z3


class UnsupportedSymbolic(Exception):
    """A value-dependent operation that the engine does not model was reached.

    Fail-closed: the obligation becomes 'not encodable', never silently wrong."""


class PathAbort(BaseException):
    """Raised to abandon the current path (infeasible side, budget)."""


class VarInfo:
    __slots__ = ("name", "kind", "z", "vid")

    def __init__(self, name, kind, z, vid):
        self.name, self.kind, self.z, self.vid = name, kind, z, vid


class PathState:
    def __init__(self, decisions=(), mode="real"):
        self.vars: list[VarInfo] = []
        self.by_name: dict[str, int] = {}
        self.rules: dict[int, tuple[int, object]] = {}   # vid -> (k, Poly)  meaning v**k -> Poly
        self.positive: set[int] = set()                  # vids known > 0
        self.nonneg: set[int] = set()                    # vids known >= 0
        self.nzvars: set[int] = set()                    # vids known != 0
        self.nzpolys: set = set()                        # poly keys known != 0
        self.conds: list = []                            # tier-0: assumptions + branch guards (z3 Bool)
        self.defs: list = []                             # (tier, z3 Bool) definitions of tower variables
        self.decisions = list(decisions)
        self.pos = 0
        self.pending: list[list] = []                    # alternative prefixes discovered on this path
        self.counters: dict[str, int] = {}
        self.mode = mode                                 # "real" | "int" (lattice inputs)
        self.forks = 0
        self.notes: list[str] = []
        self.input_vids: list[int] = []
        self.tier2_depth = 0                             # >0 while inside an argmax/argsort ordering fork
        self.order_conds: list = []                      # tier-2 ordering constraints
        self.writes: list = []                           # (description) of flagged writes (purity checks)
        self.lemmas_used: set[str] = set()

    # ------------------------------------------------------------------ variables
    def new_var(self, base, kind, sort="real"):
        n = self.counters.get(base, 0)
        self.counters[base] = n + 1
        name = f"{base}!{n}"
        return self.named_var(name, kind, sort)

    def named_var(self, name, kind, sort="real"):
        if name in self.by_name:
            return self.by_name[name]
        z = z3.Int(name) if sort == "int" else z3.Real(name)
        vid = len(self.vars)
        self.vars.append(VarInfo(name, kind, z, vid))
        self.by_name[name] = vid
        if kind in ("in", "inint"):
            self.input_vids.append(vid)
        return vid

    def add_def(self, formula, tier=0):
        self.defs.append((tier, formula))

    def constraints(self, max_tier=0):
        out = list(self.conds)
        out += [f for t, f in self.defs if t <= max_tier]
        if max_tier >= 2:
            out += self.order_conds
        return out


CUR: PathState | None = None


def cur() -> PathState:
    if CUR is None:
        raise RuntimeError("no active symbolic path")
    return CUR


def set_cur(p):
    global CUR
    CUR = p


def active() -> bool:
    return CUR is not None
