"""SymArray: ndarray subclass (C-level dtype object) with a *virtual* numeric dtype, plus
the NEP-13 / NEP-18 dispatch that routes numpy calls on symbolic data into the engine."""
from __future__ import annotations

import operator

import warnings

import numpy as _np
import z3

warnings.filterwarnings("ignore", message="future versions will not create a writeable array from broadcast_array")

from . import state
from .alg import (Alg, Cx, SymBool, BoolCount, TRUE, FALSE, INF, NAN, ZERO, Poly, alg_abs, alg_sqrt, alg_cbrt,
                  alg_max, alg_min, cx_sqrt, ite, is_sym_scalar, cast_scalar, decide_index, fresh, _Parity)
from .state import UnsupportedSymbolic, cur

_ND = _np.ndarray


# --------------------------------------------------------------------------- element helpers

def lift(x, kind):
    """normalise an element for a virtual dtype kind"""
    if kind == "c":
        return x if isinstance(x, Cx) else Cx.of(x)
    if kind == "b":
        return x if isinstance(x, SymBool) else SymBool.of(x)
    if kind in "fiu":
        if isinstance(x, Alg):
            return x
        if isinstance(x, (SymBool,)):
            return x.as_alg()
        if isinstance(x, (Cx, complex, _np.complexfloating)):
            return cast_scalar(Cx.of(x), _np.dtype(float))
        if isinstance(x, (BoolCount, _Parity, Pow2)):
            return x
        return Alg.of(x)
    return x


def kind_of_elem(x):
    if isinstance(x, Cx) or isinstance(x, (complex, _np.complexfloating)):
        return "c"
    if isinstance(x, (SymBool, bool, _np.bool_)):
        return "b"
    if isinstance(x, (int, _np.integer, BoolCount, _Parity, Pow2)):
        return "i"
    return "f"


_KIND_DT = {"c": _np.dtype(complex), "b": _np.dtype(bool), "i": _np.dtype(int), "f": _np.dtype(float)}


class Pow2:
    """a power of two 2**e with symbolic exponent, represented by its value (a positive unit variable)"""
    __slots__ = ("q",)

    def __init__(self, q):
        self.q = q

    def __sub__(self, o):
        if isinstance(o, Pow2):
            return Pow2(self.q / o.q)
        if isinstance(o, Alg) and o.is_const():
            o = o.cval()
        if isinstance(o, (int, _np.integer)):
            return Pow2(self.q / Alg.const(2) ** int(o)) if o >= 0 else Pow2(self.q * Alg.const(2) ** int(-o))
        return NotImplemented

    def __rsub__(self, o):
        if isinstance(o, Alg) and o.is_const():
            o = o.cval()
        if isinstance(o, (int, _np.integer)):
            return Pow2(Alg.const(2) ** int(o) / self.q) if o >= 0 else Pow2(Alg.const(1) / (self.q * Alg.const(2) ** int(-o)))
        return NotImplemented

    def __add__(self, o):
        if isinstance(o, Pow2):
            return Pow2(self.q * o.q)
        if isinstance(o, Alg) and o.is_const():
            o = o.cval()
        if isinstance(o, (int, _np.integer)):
            return self - (-int(o))
        return NotImplemented

    __radd__ = __add__

    def __neg__(self):
        return Pow2(Alg.const(1) / self.q)

    def __hash__(self):
        return id(self)

    def __repr__(self):
        return f"Pow2({self.q!r})"


def as_pow2(e):
    if isinstance(e, Pow2):
        return e.q
    if isinstance(e, Alg) and e.is_const():
        e = e.cval()
    if isinstance(e, (int, _np.integer)):
        e = int(e)
        return Alg.const(2) ** e if e >= 0 else Alg.const(1) / Alg.const(2) ** (-e)
    raise UnsupportedSymbolic("ldexp with a symbolic non-frexp exponent")


# --------------------------------------------------------------------------- SymArray

class SymArray(_ND):
    __array_priority__ = 1500

    def __new__(cls, data, vdtype=None):
        if isinstance(data, SymArray) and vdtype is None:
            return data
        a = _np.asarray(data, dtype=object) if not (isinstance(data, _ND) and data.dtype == object) else data
        obj = a.view(cls)
        if vdtype is None:
            vdtype = guess_vdtype(a)
        obj._vd = _np.dtype(vdtype)
        return obj

    def __array_finalize__(self, parent):
        if parent is None:
            return
        self._vd = getattr(parent, "_vd", None)
        self._part = None

    @property
    def dtype(self):
        vd = getattr(self, "_vd", None)
        return vd if vd is not None else _np.dtype(object)

    @property
    def plain(self):
        return self.view(_ND)

    # ---- protocols
    def __array_ufunc__(self, ufunc, method, *inputs, **kwargs):
        return ufunc_dispatch(ufunc, method, inputs, kwargs)

    def __array_function__(self, func, types, args, kwargs):
        return function_dispatch(func, types, args, kwargs)

    # ---- indexing
    def __getitem__(self, key):
        key = concretize_key(key)
        r = _ND.__getitem__(self, key)
        if isinstance(r, _ND) and not isinstance(r, SymArray):
            r = SymArray(r, self._vd)
        return r

    def __setitem__(self, key, value):
        key = concretize_key(key)
        k = self._vd.kind if self._vd is not None else "f"
        part = getattr(self, "_part", None)
        if isinstance(value, SymArray):
            value = value.plain
        if isinstance(value, _ND):
            v = _np.empty(value.shape, dtype=object)
            for idx in _np.ndindex(*value.shape):
                v[idx] = lift(value[idx], k)
            value = v
        elif isinstance(value, (list, tuple)):
            value = SymArray(to_sym(value, self._vd)).plain
        else:
            value = lift(value, k)
        if k in "iu":
            value = _int_store(value)
        if part is not None:
            part.write(key, value)
            return
        _ND.__setitem__(self, key, value)

    def __iter__(self):
        if self.ndim == 0:
            raise TypeError("iteration over a 0-d array")
        for i in range(self.shape[0]):
            yield self[i]

    # ---- conversions
    def __bool__(self):
        if self.size != 1:
            raise ValueError("The truth value of an array with more than one element is ambiguous.")
        return bool(self.plain.reshape(-1)[0])

    def __float__(self):
        if self.size != 1:
            raise TypeError("only size-1 arrays can be converted")
        return float(self.plain.reshape(-1)[0])

    def __int__(self):
        return int(self.plain.reshape(-1)[0])

    def __index__(self):
        return operator.index(self.plain.reshape(-1)[0])

    def __complex__(self):
        return complex(self.plain.reshape(-1)[0])

    def item(self, *a):
        return self.plain.item(*a)

    def tolist(self):
        return self.plain.tolist()

    def astype(self, dtype, order="K", casting="unsafe", subok=True, copy=True):
        dt = _np.dtype(dtype)
        if not copy and dt == self._vd:
            return self      # numpy semantics: no copy when the dtype already matches (aliasing matters for purity checks)
        if dt.kind in "US":
            # only used for messages / repr
            return _np.array([repr(x) for x in self.plain.reshape(-1)], dtype=object).reshape(self.shape).astype(str)
        out = _np.empty(self.shape, dtype=object)
        p = self.plain
        for idx in _np.ndindex(*self.shape):
            out[idx] = cast_scalar(p[idx], dt)
        return SymArray(out, dt)

    def copy(self, order="C"):
        return SymArray(self.plain.copy(), self._vd)

    def __copy__(self):
        return self.copy()

    def __deepcopy__(self, memo):
        return self.copy()

    def view(self, *a, **k):
        if not a and not k:
            return _ND.view(self)
        if a and a[0] is _ND and len(a) == 1 and not k:
            return _ND.view(self, _ND)
        if a and isinstance(a[0], type) and issubclass(a[0], _ND):
            return _ND.view(self, *a, **k)
        raise UnsupportedSymbolic("dtype view of a symbolic array")

    # ---- parts
    @property
    def real(self):
        if self._vd.kind != "c":
            return self
        return _part_view(self, "re")

    @real.setter
    def real(self, v):
        self.real[...] = v

    @property
    def imag(self):
        if self._vd.kind != "c":
            z = _np.empty(self.shape, dtype=object)
            z.fill(Alg(ZERO))
            return SymArray(z, self._vd)
        return _part_view(self, "im")

    @imag.setter
    def imag(self, v):
        self.imag[...] = v

    def conj(self):
        return _np.conjugate(self)

    conjugate = conj

    # ---- reductions & value dependent methods
    def sum(self, axis=None, dtype=None, out=None, keepdims=False, **kw):
        return h_sum(self, axis=axis, dtype=dtype, keepdims=keepdims)

    def prod(self, axis=None, dtype=None, out=None, keepdims=False, **kw):
        return h_prod(self, axis=axis, keepdims=keepdims)

    def all(self, axis=None, out=None, keepdims=False, **kw):
        return h_all(self, axis=axis, keepdims=keepdims)

    def any(self, axis=None, out=None, keepdims=False, **kw):
        return h_any(self, axis=axis, keepdims=keepdims)

    def max(self, axis=None, out=None, keepdims=False, **kw):
        return h_max(self, axis=axis, keepdims=keepdims)

    def min(self, axis=None, out=None, keepdims=False, **kw):
        return h_min(self, axis=axis, keepdims=keepdims)

    def argmax(self, axis=None, out=None, keepdims=False):
        return h_argmax(self, axis=axis, keepdims=keepdims)

    def argmin(self, axis=None, out=None, keepdims=False):
        return h_argmax(-self, axis=axis, keepdims=keepdims)

    def nonzero(self):
        return concretize_bool(self).nonzero()

    def dot(self, b, out=None):
        return function_dispatch(_np.dot, (SymArray,), (self, b), {})

    def mean(self, axis=None, **kw):
        return h_average(self, axis=axis)

    def __repr__(self):
        return f"SymArray(shape={self.shape}, vdtype={self._vd})"

    __str__ = __repr__


def _int_store(value):
    """numpy semantics of storing into an integer array: truncation towards zero (constants); symbolic non-integers are not modelled"""
    def one(x):
        if isinstance(x, Alg):
            if x.is_const():
                c = x.cval()
                return x if isinstance(c, int) else Alg.const(int(c))
            raise UnsupportedSymbolic("symbolic value stored into an integer-typed array (numpy would truncate it)")
        return x
    if isinstance(value, _ND):
        out = _np.empty(value.shape, dtype=object)
        for idx in _np.ndindex(*value.shape):
            out[idx] = one(value[idx])
        return out
    return one(value)


class _Part:
    def __init__(self, parent, which):
        self.parent, self.which = parent, which

    def write(self, key, value):
        par = self.parent.plain
        if isinstance(key, tuple) and len(key) == par.ndim and all(isinstance(k, (int, _np.integer)) for k in key):
            old = Cx.of(par[key])
            v = value if isinstance(value, Alg) else Alg.of(value)
            par[key] = Cx(v, old.im) if self.which == "re" else Cx(old.re, v)
            return
        sel = _np.empty(par.shape, dtype=object)
        idxs = _np.empty(par.shape, dtype=object)
        for idx in _np.ndindex(*par.shape):
            idxs[idx] = idx
        tgt = idxs[key]
        if not isinstance(tgt, _ND):
            tgt = _np.array([tgt], dtype=object).reshape(())
            tgt_list = [idxs[key]]
            vals = [value]
        else:
            vb = _np.broadcast_to(_np.asarray(value, dtype=object), tgt.shape)
            tgt_list = list(tgt.reshape(-1))
            vals = list(vb.reshape(-1))
        for idx, v in zip(tgt_list, vals):
            old = Cx.of(par[idx])
            v = v if isinstance(v, Alg) else Alg.of(v)
            par[idx] = Cx(v, old.im) if self.which == "re" else Cx(old.re, v)


def _part_view(arr, which):
    p = arr.plain
    out = _np.empty(p.shape, dtype=object)
    for idx in _np.ndindex(*p.shape):
        c = Cx.of(p[idx])
        out[idx] = c.re if which == "re" else c.im
    r = SymArray(out, _np.dtype(float))
    r._part = _Part(arr, which)
    return r


def guess_vdtype(a):
    k = "b"
    order = "bifc"
    any_ = False
    for x in a.reshape(-1):
        any_ = True
        kk = kind_of_elem(x)
        if order.index(kk) > order.index(k):
            k = kk
    if not any_:
        return _np.dtype(float)
    return _KIND_DT[k]


# --------------------------------------------------------------------------- conversions

def is_symbolic(x):
    if isinstance(x, SymArray) or is_sym_scalar(x) or isinstance(x, Pow2):
        return True
    if isinstance(x, _ND):
        if x.dtype == object:
            return any(is_symbolic(e) for e in x.reshape(-1))
        return False
    if isinstance(x, (list, tuple)):
        return any(is_symbolic(e) for e in x)
    if hasattr(x, "array") and hasattr(x, "_covariant_indices"):
        return is_symbolic(x.array)
    return False


def shadow(x):
    """same structure with symbolic leaves replaced by concrete dummies of the virtual dtype"""
    if isinstance(x, SymArray):
        return _np.zeros(x.shape, x._vd)
    if isinstance(x, Alg):
        return 1.0
    if isinstance(x, Cx):
        return 1j
    if isinstance(x, SymBool):
        return True
    if isinstance(x, (BoolCount, _Parity, Pow2)):
        return 1
    if isinstance(x, _ND):
        if x.dtype == object:
            return _np.zeros(x.shape, guess_vdtype(x))
        return x
    if isinstance(x, (list, tuple)):
        return type(x)(shadow(e) for e in x) if not hasattr(x, "_fields") else x
    if hasattr(x, "array") and hasattr(x, "_covariant_indices"):
        return shadow(x.array)
    return x


def plainify(x):
    """SymArray -> plain object ndarray (recursively through lists/tuples)"""
    if isinstance(x, SymArray):
        return x.plain
    if isinstance(x, (list, tuple)) and not hasattr(x, "_fields"):
        return type(x)(plainify(e) for e in x)
    if hasattr(x, "array") and hasattr(x, "_covariant_indices"):
        return plainify(x.array)
    return x


def to_sym(x, dtype=None):
    """np.array semantics for data containing symbolic leaves"""
    if isinstance(x, SymArray):
        return x if dtype is None or _np.dtype(dtype) == x._vd else x.astype(dtype)
    vd = _np.dtype(dtype) if dtype is not None else _np.asarray(shadow(x)).dtype
    if vd == object:
        vd = _np.dtype(float)
    p = _np.array(plainify(x), dtype=object) if not isinstance(x, _ND) else x.astype(object)
    out = _np.empty(p.shape, dtype=object)
    k = vd.kind
    for idx in _np.ndindex(*p.shape):
        e = p[idx]
        out[idx] = cast_scalar(e, vd) if (k in "iu" or kind_of_elem(e) == "c" and k != "c") else lift(e, k)
    return SymArray(out, vd)


def wrap_result(r, vd):
    if isinstance(r, SymArray):
        return r
    if isinstance(r, _ND):
        if r.dtype == object:
            return SymArray(r, vd)
        return r
    if isinstance(r, tuple):
        return tuple(wrap_result(e, vd) for e in r)
    if isinstance(r, list):
        return [wrap_result(e, vd) for e in r]
    return r


def concretize_bool(a):
    """symbolic boolean array / truthiness of a numeric symbolic array -> concrete numpy bool array (forks)"""
    if isinstance(a, SymBool):
        return _np.bool_(bool(a))
    if isinstance(a, (Alg, Cx)):
        return _np.bool_(bool(a != 0))
    p = a.plain if isinstance(a, SymArray) else a
    out = _np.empty(p.shape, dtype=bool)
    for idx in _np.ndindex(*p.shape):
        e = p[idx]
        if isinstance(e, SymBool):
            out[idx] = bool(e)
        elif isinstance(e, (Alg, Cx)):
            out[idx] = bool(e != 0)
        else:
            out[idx] = bool(e)
    return out


def _conc_index_elem(k):
    if isinstance(k, SymArray):
        if k._vd.kind == "b":
            return concretize_bool(k)
        p = k.plain
        out = _np.empty(p.shape, dtype=_np.intp)
        for idx in _np.ndindex(*p.shape):
            out[idx] = operator.index(p[idx])
        return out
    if isinstance(k, SymBool):
        return _np.bool_(bool(k))
    if isinstance(k, Alg):
        return operator.index(k)
    if isinstance(k, list) and is_symbolic(k):
        return _conc_index_elem(to_sym(k))
    return k


def concretize_key(key):
    if isinstance(key, tuple):
        if any(isinstance(k, (SymArray, SymBool, Alg, list)) for k in key):
            return tuple(_conc_index_elem(k) for k in key)
        return key
    return _conc_index_elem(key)


# --------------------------------------------------------------------------- ufuncs

def _truth(x):
    if isinstance(x, SymBool):
        return x
    if isinstance(x, (Alg, Cx)):
        return x != 0
    return SymBool.of(bool(x))


def _u_sqrt(x):
    if isinstance(x, (Cx, complex, _np.complexfloating)):
        return cx_sqrt(x)
    x = Alg.of(x)
    if x.special:
        return x
    if x.is_const():
        return alg_sqrt(x) if x.cval() >= 0 else NAN
    from .alg import _sign_known
    sk = _sign_known(x)
    if sk is not None and sk >= 0:
        return alg_sqrt(x)
    if bool(x >= 0):
        return alg_sqrt(x)
    return NAN


def _u_abs(x):
    if isinstance(x, SymBool):
        return x
    if isinstance(x, (complex, _np.complexfloating)):
        x = Cx.of(x)
    if isinstance(x, Cx):
        return abs(x)
    return alg_abs(Alg.of(x))


def _u_pow(x, k):
    if isinstance(k, (Alg,)) and k.is_const():
        k = k.cval()
    if isinstance(k, Cx):
        raise UnsupportedSymbolic("complex exponent")
    if isinstance(x, (int, float, _np.number)) and not isinstance(k, (Alg, Cx)):
        return x ** k
    if isinstance(x, (complex, _np.complexfloating)):
        x = Cx.of(x)
    if not isinstance(x, (Alg, Cx)):
        x = Alg.of(x)
    return x ** k


def _u_sign(x):
    x = Alg.of(x)
    if x.is_const():
        c = x.cval()
        return Alg.const((c > 0) - (c < 0))
    return ite(x > 0, Alg.const(1), ite(x < 0, Alg.const(-1), Alg.const(0)))


def _u_isinf(x):
    if isinstance(x, Alg):
        return TRUE if x.special == "inf" else FALSE
    if isinstance(x, Cx):
        return _u_isinf(x.re) | _u_isinf(x.im)
    return SymBool.of(bool(_np.isinf(x)))


def _u_isnan(x):
    if isinstance(x, Alg):
        return TRUE if x.special == "nan" else FALSE
    if isinstance(x, Cx):
        return _u_isnan(x.re) | _u_isnan(x.im)
    return SymBool.of(bool(_np.isnan(x)))


def _u_isfinite(x):
    return ~(_u_isinf(x) | _u_isnan(x))


def _u_frexp(x):
    x = Alg.of(x)
    if x.is_const():
        m, e = _np.frexp(float(x.cval()))
        return Alg.of(m), int(e)
    P = cur()
    vid = fresh("unit", base="pw2", positive=True)
    u = Alg.var(vid)
    m = x / u
    zu = P.vars[vid].z
    # contract of frexp (tier 1: rarely needed): x == 0 or 1/2 <= |x|/u < 1
    try:
        if len(x.n.t) > 30 or x.d is not None:
            raise OverflowError("contract of frexp omitted for large terms (it is only a tier-1 fact about the magnitude)")
        zx = x.z3()
        az = z3.If(zx >= 0, zx, -zx)
        P.add_def(z3.Or(zx == 0, z3.And(2 * az >= zu, az < zu)), tier=1)
    except Exception:
        pass
    return m, Pow2(u)


def _u_ldexp(m, e):
    return (m if isinstance(m, (Alg, Cx)) else Alg.of(m)) * as_pow2(e)


def _u_conj(x):
    if isinstance(x, (Alg, Cx)):
        return x.conjugate()
    if isinstance(x, SymBool):
        return x
    return _np.conjugate(x)


def _u_maximum(a, b):
    return alg_max(a, b)


def _u_minimum(a, b):
    return alg_min(a, b)


def _u_cbrt(x):
    return alg_cbrt(Alg.of(x))


def _u_mod(a, b):
    if isinstance(a, (BoolCount,)):
        return a % int(b)
    if isinstance(a, Alg) and a.is_const() and not isinstance(b, (Alg, Cx)) or (isinstance(b, Alg) and b.is_const()):
        bv = b.cval() if isinstance(b, Alg) else b
        av = a.cval() if isinstance(a, Alg) else a
        return Alg.of(av % bv)
    raise UnsupportedSymbolic("remainder of symbolic values")


def _cmpf(op):
    def f(a, b):
        r = op(a, b)
        if r is NotImplemented:
            raise UnsupportedSymbolic(f"comparison {op} of {type(a)} and {type(b)}")
        return r if isinstance(r, SymBool) else SymBool.of(r)
    return f


def _logical_not(a):
    return ~_truth(a)


def _invert(a):
    if isinstance(a, SymBool):
        return ~a
    if isinstance(a, (bool, _np.bool_)):
        return SymBool.of(not a)
    raise UnsupportedSymbolic("bitwise invert of a non-boolean symbolic value")


def _bitop(op):
    def f(a, b):
        if isinstance(a, (SymBool, bool, _np.bool_)) and isinstance(b, (SymBool, bool, _np.bool_)):
            return op(SymBool.of(a), SymBool.of(b))
        raise UnsupportedSymbolic("bitwise op on non-boolean symbolic values")
    return f


def _u_trig(name):
    def f(x):
        from .trig import trig_eval
        return trig_eval(name, x)
    return f


def _u_arccos(x):
    from .trig import arccos_eval
    return arccos_eval(x)


def _u_log(x):
    from .trig import log_eval
    return log_eval(x)


def _u_square(x):
    return x * x


def _u_recip(x):
    return 1 / x


UF = {
    "add": operator.add, "subtract": operator.sub, "multiply": operator.mul,
    "divide": operator.truediv, "true_divide": operator.truediv,
    "negative": operator.neg, "positive": operator.pos, "absolute": _u_abs, "fabs": _u_abs,
    "sqrt": _u_sqrt, "square": _u_square, "reciprocal": _u_recip, "power": _u_pow, "float_power": _u_pow,
    "conjugate": _u_conj, "sign": _u_sign, "cbrt": _u_cbrt,
    "equal": _cmpf(operator.eq), "not_equal": _cmpf(operator.ne), "less": _cmpf(operator.lt),
    "less_equal": _cmpf(operator.le), "greater": _cmpf(operator.gt), "greater_equal": _cmpf(operator.ge),
    "logical_and": lambda a, b: _truth(a) & _truth(b), "logical_or": lambda a, b: _truth(a) | _truth(b),
    "logical_xor": lambda a, b: _truth(a) ^ _truth(b), "logical_not": _logical_not,
    "bitwise_and": _bitop(operator.and_), "bitwise_or": _bitop(operator.or_), "bitwise_xor": _bitop(operator.xor),
    "invert": _invert,
    "maximum": _u_maximum, "minimum": _u_minimum, "fmax": _u_maximum, "fmin": _u_minimum,
    "isinf": _u_isinf, "isnan": _u_isnan, "isfinite": _u_isfinite,
    "frexp": _u_frexp, "ldexp": _u_ldexp,
    "cos": _u_trig("cos"), "sin": _u_trig("sin"), "arccos": _u_arccos, "log": _u_log,
    "remainder": _u_mod, "mod": _u_mod,
    "spacing": lambda x: Alg.const(0),   # idealised tolerance: rank = number of non-zero singular values (DESIGN 2.5)
}


def _shadow_call(f, args, kwargs=None):
    with _np.errstate(all="ignore"):
        import warnings
        with warnings.catch_warnings():
            warnings.simplefilter("ignore")
            return f(*[shadow(a) for a in args], **(kwargs or {}))


def _res_dtypes(ufunc, inputs, extra=None):
    try:
        r = _shadow_call(ufunc, inputs, extra)
    except Exception:
        return None
    if isinstance(r, tuple):
        return [_np.asarray(x).dtype for x in r]
    return [_np.asarray(r).dtype]


def _fix_elems(res, vd):
    """make elements consistent with virtual dtype (e.g. Alg results in a complex array -> Cx)"""
    if vd is None:
        return res
    k = vd.kind
    if isinstance(res, _ND):
        for idx in _np.ndindex(*res.shape):
            e = res[idx]
            if k == "c" and not isinstance(e, Cx):
                res[idx] = Cx.of(e)
            elif k in "fiu" and isinstance(e, (int, float, _np.number, SymBool, bool, _np.bool_)):
                res[idx] = lift(e, k)
            elif k == "b" and not isinstance(e, SymBool):
                res[idx] = SymBool.of(e)
        return res
    if k == "c" and not isinstance(res, Cx):
        return Cx.of(res)
    if k in "fiu" and isinstance(res, (int, float, _np.number, SymBool, bool, _np.bool_)):
        return lift(res, k)
    if k == "b" and not isinstance(res, SymBool):
        return SymBool.of(res)
    return res


def _foreign(x):
    return hasattr(x, "__array_ufunc__") and not isinstance(x, (_ND, Alg, Cx, SymBool)) and type(x).__array_ufunc__ is not None


def ufunc_dispatch(ufunc, method, inputs, kwargs):
    if any(_foreign(x) for x in inputs):
        return NotImplemented
    kwargs = dict(kwargs)
    out = kwargs.pop("out", None)
    where = kwargs.pop("where", True)
    name = ufunc.__name__
    if name == "matmul" and method == "__call__":
        vds = _res_dtypes(ufunc, inputs)
        r = _np.matmul(*[_obj(x) for x in inputs])
        r = _fix_elems(r, vds[0] if vds else None)
        r = wrap_result(r, vds[0] if vds else None)
        if out is not None:
            out[0][...] = r
            return out[0]
        return r
    f = UF.get(name)
    if f is None:
        raise UnsupportedSymbolic(f"ufunc {name} on symbolic data")
    if method == "reduce":
        return _ufunc_reduce(ufunc, f, inputs, kwargs, out)
    if method != "__call__":
        raise UnsupportedSymbolic(f"ufunc method {method} on symbolic data")
    dtype_kw = kwargs.pop("dtype", None)
    kwargs.pop("casting", None)
    kwargs.pop("subok", None)
    kwargs.pop("order", None)
    if kwargs:
        raise UnsupportedSymbolic(f"ufunc kwargs {list(kwargs)}")
    vds = _res_dtypes(ufunc, inputs, {"dtype": dtype_kw} if dtype_kw is not None and dtype_kw is not object else None)
    plain = [_obj(x) for x in inputs]
    nout = ufunc.nout
    if where is True and out is None:
        if not any(isinstance(x, _ND) for x in plain):
            res = f(*[x.item() if isinstance(x, _np.generic) else x for x in plain])
        else:
            plain = [_np.asarray(x, dtype=object) if not isinstance(x, _ND) and is_sym_scalar(x) else x for x in plain]
            res = _np.frompyfunc(f, ufunc.nin, nout)(*[_box(x) for x in plain])
        if nout == 1:
            res = (res,)
        outs = []
        for i, r in enumerate(res):
            vd = vds[i] if vds else None
            if isinstance(r, _ND):
                r = _fix_elems(r, vd)
                outs.append(SymArray(r, vd))
            else:
                outs.append(_fix_elems(r, vd))
        return outs[0] if nout == 1 else tuple(outs)
    # out= and/or where=
    if nout != 1:
        raise UnsupportedSymbolic("out=/where= with multi-output ufunc")
    mask = where
    if mask is not True:
        mask = concretize_bool(mask) if is_symbolic(mask) else _np.asarray(mask, dtype=bool)
    if out is None:
        raise UnsupportedSymbolic("where= without out=")
    target = out[0] if isinstance(out, tuple) else out
    if not isinstance(target, SymArray):
        raise UnsupportedSymbolic("symbolic ufunc result written into a concrete array")
    shape = target.shape
    ins = [_np.broadcast_to(p, shape) for p in plain]
    m = _np.broadcast_to(mask, shape) if mask is not True else None
    k = target._vd.kind
    part = getattr(target, "_part", None)
    tp = target.plain
    vals = {}
    for idx in _np.ndindex(*shape):
        if m is None or m[idx]:
            vals[idx] = f(*[x[idx] for x in ins])
    for idx, v in vals.items():
        if part is not None:
            part.write(idx, v)
        tp[idx] = lift(v, k)
    return target


def _box(x):
    """scalars with __array_ufunc__ must not re-enter dispatch through frompyfunc: box them in 0-d object arrays"""
    if is_sym_scalar(x) or isinstance(x, Pow2):
        a = _np.empty((), dtype=object)
        a[()] = x
        return a
    return x


def _obj(x):
    if isinstance(x, SymArray):
        return x.plain
    if isinstance(x, _ND):
        return x.astype(object) if x.dtype != object else x
    return x


def _ufunc_reduce(ufunc, f, inputs, kwargs, out):
    a = inputs[0]
    axis = kwargs.get("axis", 0)
    keepdims = kwargs.get("keepdims", False)
    initial = kwargs.get("initial", _np._NoValue)
    if kwargs.get("where", True) is not True:
        raise UnsupportedSymbolic("reduce with where=")
    return _reduce(a, f, axis, keepdims, ufunc.identity if initial is _np._NoValue else initial, ufunc)


def _reduce(a, f, axis, keepdims, identity, shadow_fn=None):
    arr = a if isinstance(a, SymArray) else to_sym(a)
    p = arr.plain
    if shadow_fn is not None:
        try:
            vd = _np.asarray(_shadow_call(lambda x: shadow_fn.reduce(x, axis=axis, keepdims=keepdims) if isinstance(shadow_fn, _np.ufunc) else shadow_fn(x, axis=axis, keepdims=keepdims), [arr])).dtype
        except Exception:
            vd = arr._vd
    else:
        vd = arr._vd
    if axis is None:
        axes = tuple(range(p.ndim))
    elif isinstance(axis, (int, _np.integer)):
        axes = (int(axis) % max(p.ndim, 1),) if p.ndim else ()
    else:
        axes = tuple(int(x) % p.ndim for x in axis)
    keep = [i for i in range(p.ndim) if i not in axes]
    q = _np.transpose(p, keep + list(axes))
    oshape = tuple(p.shape[i] for i in keep)
    rlen = 1
    for i in axes:
        rlen *= p.shape[i]
    q = q.reshape(oshape + (rlen,))
    res = _np.empty(oshape, dtype=object)
    for idx in _np.ndindex(*oshape):
        items = list(q[idx])
        if not items:
            if identity is None:
                raise ValueError("zero-size array to reduction operation which has no identity")
            acc = identity
        else:
            acc = items[0]
            for x in items[1:]:
                acc = f(acc, x)
        res[idx] = acc
    res = _fix_elems(res, vd)
    if keepdims:
        shp = [1 if i in axes else p.shape[i] for i in range(p.ndim)]
        res = res.reshape(shp)
    if res.ndim == 0:
        v = res[()]
        if isinstance(v, BoolCount) and not v.items:
            return _np.int_(v.base)
        return v
    return SymArray(res, vd)


# --------------------------------------------------------------------------- reductions used as handlers

def h_sum(a, axis=None, dtype=None, keepdims=False, **kw):
    r = _reduce(a, operator.add, axis, keepdims, 0, _np.add)
    return r


def h_prod(a, axis=None, keepdims=False, **kw):
    return _reduce(a, operator.mul, axis, keepdims, 1, _np.multiply)


def h_all(a, axis=None, keepdims=False, **kw):
    return _reduce(a, lambda x, y: _truth(x) & _truth(y), axis, keepdims, TRUE, _np.logical_and) if True else None


def h_any(a, axis=None, keepdims=False, **kw):
    return _reduce(a, lambda x, y: _truth(x) | _truth(y), axis, keepdims, FALSE, _np.logical_or)


def h_max(a, axis=None, keepdims=False, **kw):
    return _reduce(a, alg_max, axis, keepdims, None, _np.maximum)


def h_min(a, axis=None, keepdims=False, **kw):
    return _reduce(a, alg_min, axis, keepdims, None, _np.minimum)


def _all_fix(r):
    # reductions over single elements must still return booleans
    return r


def _argmax_1d(items):
    """index of the first maximal element (numpy semantics); forks 1-of-N"""
    n = len(items)
    if n == 1:
        return 0
    if all(isinstance(x, (SymBool, bool, _np.bool_)) for x in items):
        bs = [SymBool.of(x) for x in items]
        opts = []
        none_before = TRUE
        for b in bs:
            opts.append(none_before & b)
            none_before = none_before & ~b
        # none true -> index 0
        for k in range(n):
            if bool(opts[k]):
                return k
        return 0
    xs = [Alg.of(x) for x in items]
    # constants only -> concrete
    if all(x.is_const() for x in xs):
        vals = [x.cval() for x in xs]
        return vals.index(max(vals))
    P = cur()
    # candidates: first occurrence of each syntactically distinct value (a later equal value can never be the first maximum)
    seen = {}
    cand = []
    for k, x in enumerate(xs):
        key = (x.n.key(), None if x.d is None else x.d.key(), x.special)
        if key in seen:
            continue
        seen[key] = k
        cand.append(k)
    if len(cand) == 1:
        return cand[0]
    P.tier2_depth += 1
    try:
        opts = []
        for k in cand:
            c = TRUE
            for j in cand:
                if j == k:
                    continue
                c = c & ((xs[k] > xs[j]) if j < k else (xs[k] >= xs[j]))
            opts.append(c)
        return cand[decide_index(opts)]
    finally:
        P.tier2_depth -= 1


def h_argmax(a, axis=None, keepdims=False, **kw):
    arr = a if isinstance(a, SymArray) else to_sym(a)
    p = arr.plain
    if axis is None:
        r = _argmax_1d(list(p.reshape(-1)))
        if keepdims:
            return _np.full((1,) * p.ndim, r, dtype=_np.intp)
        return _np.intp(r)
    axis = int(axis) % p.ndim
    q = _np.moveaxis(p, axis, -1)
    out = _np.empty(q.shape[:-1], dtype=_np.intp)
    for idx in _np.ndindex(*out.shape):
        out[idx] = _argmax_1d(list(q[idx]))
    if keepdims:
        out = _np.expand_dims(out, axis)
    if out.ndim == 0:
        return _np.intp(out[()])
    return out


def h_average(a, axis=None, weights=None, returned=False, keepdims=False):
    arr = a if isinstance(a, SymArray) else to_sym(a)
    if weights is None:
        n = arr.size if axis is None else arr.shape[axis]
        return h_sum(arr, axis=axis, keepdims=keepdims) / n
    w = weights if isinstance(weights, SymArray) else to_sym(weights)
    if w.shape != arr.shape:
        if axis is None:
            raise TypeError("Axis must be specified when shapes of a and weights differ.")
        w = _np.broadcast_to(w.plain, (arr.ndim - 1) * (1,) + w.shape)
        w = SymArray(_np.swapaxes(w, -1, axis), _np.dtype(float))
    scl = h_sum(w, axis=axis, keepdims=keepdims)
    if bool(_reduce_any_zero(scl)):
        raise ZeroDivisionError("Weights sum to zero, can't be normalized")
    return h_sum(arr * w, axis=axis, keepdims=keepdims) / scl


def _reduce_any_zero(x):
    if isinstance(x, SymArray):
        return h_any(x == 0)
    return x == 0


# --------------------------------------------------------------------------- function dispatch (NEP-18)

HANDLERS = {}
STRUCTURAL = set()


def handles(*funcs):
    def deco(f):
        for fn in funcs:
            HANDLERS[fn] = f
        return f
    return deco


for _n in ("stack", "concatenate", "swapaxes", "moveaxis", "reshape", "transpose", "expand_dims", "squeeze",
           "broadcast_arrays", "broadcast_to", "roll", "flip", "delete", "append", "take_along_axis", "tensordot",
           "einsum", "diagonal", "ravel", "tile", "column_stack", "diag", "copy", "atleast_1d", "atleast_2d",
           "cross", "outer", "dot", "vdot", "inner", "take", "vstack", "hstack", "rollaxis", "repeat", "trace",
           "array_split", "split", "insert", "triu", "tril", "kron", "flipud", "fliplr", "rot90", "shape", "ndim", "size",
           "may_share_memory", "shares_memory", "result_type", "can_cast", "iscomplexobj", "isrealobj", "common_type",
           "einsum_path", "fill_diagonal", "copyto", "putmask", "place", "put", "ix_", "resize", "dstack"):
    if hasattr(_np, _n):
        STRUCTURAL.add(getattr(_np, _n))


def function_dispatch(func, types, args, kwargs):
    h = HANDLERS.get(func)
    if h is not None:
        return h(*args, **kwargs)
    if func in STRUCTURAL:
        return _structural(func, args, kwargs)
    raise UnsupportedSymbolic(f"numpy function {getattr(func, '__module__', '')}.{getattr(func, '__name__', func)} on symbolic data")


_DTYPE_ONLY = {_np.result_type, _np.can_cast, _np.iscomplexobj, _np.isrealobj, _np.common_type}
_SHAPE_ONLY = {_np.shape, _np.ndim, _np.size}


def _structural(func, args, kwargs):
    if func in _DTYPE_ONLY or func in _SHAPE_ONLY:
        return func(*[shadow(a) for a in args], **{k: shadow(v) for k, v in kwargs.items()})
    if func in (_np.may_share_memory, _np.shares_memory):
        return func(*[plainify(a) for a in args], **kwargs)
    try:
        sh = _shadow_call(func, args, {k: shadow(v) for k, v in kwargs.items()})
    except Exception:
        sh = None
    impl = getattr(func, "_implementation", func)
    pargs = [plainify(_objectify(a)) for a in args]
    pkw = {k: plainify(_objectify(v)) for k, v in kwargs.items()}
    r = impl(*pargs, **pkw)
    return _rewrap(r, sh)


def _objectify(a):
    """numeric ndarrays that are combined with symbolic ones must be object arrays (einsum/concatenate cast rules)"""
    return a


def _rewrap(r, sh):
    if isinstance(r, _ND):
        if r.dtype == object:
            vd = sh.dtype if isinstance(sh, _ND) else (_np.asarray(sh).dtype if sh is not None and not isinstance(sh, (tuple, list)) else None)
            if r.ndim == 0 and sh is not None and not isinstance(sh, _ND):
                return _fix_elems(r[()], vd)
            r = _fix_elems(r.copy() if not r.flags.writeable else r, vd) if vd is not None else r
            return SymArray(r, vd)
        return r
    if isinstance(r, (tuple, list)):
        shs = sh if isinstance(sh, (tuple, list)) and len(sh) == len(r) else [None] * len(r)
        return type(r)(_rewrap(x, s) for x, s in zip(r, shs))
    if is_sym_scalar(r) and sh is not None and not isinstance(sh, (tuple, list)):
        return _fix_elems(r, _np.asarray(sh).dtype)
    return r
