"""Trigonometric contract stubs.

An angle is an Alg that is a Q-linear combination of the symbol `pi` and of angle variables theta_i.
cos/sin of it are computed exactly: rational multiples of pi/12 have algebraic values, each angle variable theta
contributes a pair (c, s) with c^2 + s^2 = 1 (rule s^2 -> 1 - c^2), integer multiples and sums go through the
addition theorem.  The numerical value of cos/sin/log/arccos is outside every claim."""
from __future__ import annotations

from fractions import Fraction

import z3

from .alg import Alg, Cx, Poly, ZERO, alg_sqrt, fresh, _nf
from .state import UnsupportedSymbolic, cur


def pi_const():
    P = cur()
    vid = P.by_name.get("pi")
    if vid is None:
        vid = P.named_var("pi", "pi")
        z = P.vars[vid].z
        P.positive.add(vid)
        P.nzvars.add(vid)
        P.nonneg.add(vid)
        P.add_def(z3.And(z > z3.RealVal("3.14159265"), z < z3.RealVal("3.14159266")))
    return Alg.var(vid)


def new_angle(name=None):
    """fresh angle variable theta with its (cos, sin) pair"""
    P = cur()
    tv = P.named_var(name, "angle") if name else fresh("angle", base="theta")
    _cs_of(tv)
    return Alg.var(tv)


def _cs_of(tv):
    P = cur()
    tab = P.__dict__.setdefault("_angles", {})
    if tv in tab:
        return tab[tv]
    nm = P.vars[tv].name
    cv = P.named_var("cos_" + nm, "cos")
    sv = P.named_var("sin_" + nm, "sin")
    zc, zs = P.vars[cv].z, P.vars[sv].z
    P.add_def(zc * zc + zs * zs == 1)
    P.rules[sv] = (2, Poly.const(1) - Poly.var(cv, 2))
    tab[tv] = (Alg.var(cv), Alg.var(sv))
    return tab[tv]


def angle_cs(theta):
    """(cos, sin) Alg pair of an angle variable created by new_angle"""
    st = theta.n.single_term()
    return _cs_of(st[0][0][0])


_SQ = {}


def _sqrt_c(n):
    return alg_sqrt(Alg.const(n))


def _cs_pi_multiple(q):
    """exact (cos, sin) of q*pi for q a multiple of 1/12"""
    q = Fraction(q) % 2
    k = q * 12
    if k.denominator != 1:
        raise UnsupportedSymbolic(f"cos/sin of {q}*pi (only multiples of pi/12 have built-in exact values)")
    k = int(k) % 24
    # first quadrant table for k = 0..6  (angle k*15 degrees)
    def first(k):
        if k == 0:
            return Alg.const(1), Alg.const(0)
        if k == 2:
            return _sqrt_c(3) / 2, Alg.const(Fraction(1, 2))
        if k == 3:
            return _sqrt_c(2) / 2, _sqrt_c(2) / 2
        if k == 4:
            return Alg.const(Fraction(1, 2)), _sqrt_c(3) / 2
        if k == 6:
            return Alg.const(0), Alg.const(1)
        if k == 1:
            return (_sqrt_c(6) + _sqrt_c(2)) / 4, (_sqrt_c(6) - _sqrt_c(2)) / 4
        if k == 5:
            return (_sqrt_c(6) - _sqrt_c(2)) / 4, (_sqrt_c(6) + _sqrt_c(2)) / 4
    quad, r = divmod(k, 6)
    c, s = first(r)
    for _ in range(quad):
        c, s = -s, c
    return c, s


def _mult(c, s, k):
    """(cos, sin) of k*theta from (c, s), integer k"""
    if k < 0:
        cc, ss = _mult(c, s, -k)
        return cc, -ss
    rc, rs = Alg.const(1), Alg.const(0)
    for _ in range(k):
        rc, rs = rc * c - rs * s, rs * c + rc * s
    return rc, rs


def cs_of_expr(x):
    x = Alg.of(x)
    if x.special:
        raise UnsupportedSymbolic("cos/sin of inf/nan")
    if x.d is not None:
        raise UnsupportedSymbolic("cos/sin of a rational-function angle")
    P = cur()
    c, s = Alg.const(1), Alg.const(0)
    for m, coef in x.n.t.items():
        if len(m) != 1 or m[0][1] != 1:
            if not m and coef == 0:
                continue
            raise UnsupportedSymbolic("cos/sin of a non-angle expression")
        v = m[0][0]
        kind = P.vars[v].kind
        if kind == "pi":
            c2, s2 = _cs_pi_multiple(coef)
        elif kind == "angle":
            coef = Fraction(coef)
            if coef.denominator != 1:
                sub = P.__dict__.setdefault("_subangles", {})
                key = (v, coef.denominator)
                if key not in sub:
                    raise UnsupportedSymbolic("fractional multiple of an angle variable")
                bc, bs = sub[key]
                c2, s2 = _mult(bc, bs, coef.numerator)
            else:
                bc, bs = _cs_of(v)
                c2, s2 = _mult(bc, bs, int(coef))
        else:
            raise UnsupportedSymbolic("cos/sin of a non-angle expression")
        c, s = c * c2 - s * s2, s * c2 + c * s2
    return c, s


def trig_eval(name, x):
    if isinstance(x, Cx):
        raise UnsupportedSymbolic("complex trig")
    x = Alg.of(x)
    if x.is_const():
        if x.cval() == 0:
            return Alg.const(1 if name == "cos" else 0)
        raise UnsupportedSymbolic(f"{name} of a non-zero rational constant (transcendental)")
    c, s = cs_of_expr(x)
    return c if name == "cos" else s


def arccos_eval(x):
    """k = arccos(x) in [0, pi]: new angle variable with cos k = x, sin k = sqrt(1 - x^2) >= 0.
    k/3 is supported through a sub-angle (M, N) = (cos k/3, sin k/3) with 4M^3 - 3M = x, M in [1/2, 1], N >= 0."""
    x = Alg.of(x)
    P = cur()
    tv = fresh("angle", base="acos")
    s = alg_sqrt(Alg.const(1) - x * x)
    P.__dict__.setdefault("_angles", {})[tv] = (x, s)
    # third-angle pair
    mv = fresh("cos", base="acM")
    nv = fresh("sin", base="acN", nonneg=True)
    zm, zn = P.vars[mv].z, P.vars[nv].z
    P.add_def(zm * zm + zn * zn == 1)
    P.add_def(z3.And(2 * zm >= 1, zm <= 1))
    try:
        P.add_def(4 * zm * zm * zm - 3 * zm == x.z3())
    except Exception:
        raise UnsupportedSymbolic("arccos argument not encodable")
    P.rules[nv] = (2, Poly.const(1) - Poly.var(mv, 2))
    if x.d is None and not x.n.has_neg():
        # M^3 -> (3M + x)/4
        P.rules[mv] = (3, (Poly.var(mv).scale(3) + x.n).scale(Fraction(1, 4)))
    P.__dict__.setdefault("_subangles", {})[(tv, 3)] = (Alg.var(mv), Alg.var(nv))
    return Alg.var(tv)


class LogOfUnit:
    """log(z) for complex z, only consumed as  Re( log(z) / 2i ) = arg(z)/2  (Laguerre's formula)"""

    def __init__(self, z):
        self.z = z


def log_eval(z):
    """np.log of a complex symbolic scalar.  Represented as Cx(log|z|, arg z) where both parts are opaque:
    log|z| is a free real, arg z is an angle variable theta in (-pi, pi] with (cos, sin) = z/|z|."""
    if isinstance(z, Alg):
        if z.is_const() and z.cval() == 1:
            return Alg.const(0)
        z = Cx.of(z)
    z = Cx.of(z)
    P = cur()
    mod = abs(z)
    tv = fresh("angle", base="arg")
    P.__dict__.setdefault("_angles", {})[tv] = (z.re / mod, z.im / mod)
    # half angle pair for theta/2 in (-pi/2, pi/2]: cos >= 0
    hc = fresh("cos", base="hc", nonneg=True)
    hs = fresh("sin", base="hs")
    zc, zs = P.vars[hc].z, P.vars[hs].z
    P.add_def(zc * zc + zs * zs == 1)
    P.rules[hs] = (2, Poly.const(1) - Poly.var(hc, 2))
    c, s = z.re / mod, z.im / mod
    try:
        P.add_def(zc * zc - zs * zs == c.z3())
        P.add_def(2 * zc * zs == s.z3())
        P.add_def(z3.Or(zc > 0, zs > 0))
    except Exception:
        raise UnsupportedSymbolic("log argument not encodable")
    P.__dict__.setdefault("_subangles", {})[(tv, 2)] = (Alg.var(hc), Alg.var(hs))
    lm = Alg.var(fresh("free", base="logabs"))
    return Cx(lm, Alg.var(tv))


def half_angle_cs(theta):
    """(cos, sin) of theta/2 for an angle produced by log_eval"""
    P = cur()
    st = theta.n.single_term()
    if st is None:
        raise UnsupportedSymbolic("half angle of a compound expression")
    (m, coef) = st
    v = m[0][0]
    return P.__dict__["_subangles"][(v, 2)]
