"""Independent reference definitions used as oracles (never call into geometer)."""
from __future__ import annotations

import itertools

import numpy as _np


def elems(a):
    """flat python list of the elements of an array-like (symbolic or concrete)"""
    if hasattr(a, "array") and hasattr(a, "_covariant_indices"):
        a = a.array
    p = a.plain if hasattr(a, "plain") else _np.asarray(a)
    return list(p.reshape(-1))


def mat(a):
    if hasattr(a, "array") and hasattr(a, "_covariant_indices"):
        a = a.array
    p = a.plain if hasattr(a, "plain") else _np.asarray(a)
    return [[p[i, j] for j in range(p.shape[1])] for i in range(p.shape[0])]


def dot(u, v):
    t = None
    for x, y in zip(u, v):
        z = x * y
        t = z if t is None else t + z
    return t


def det(M):
    n = len(M)
    if n == 1:
        return M[0][0]
    if n == 2:
        return M[0][0] * M[1][1] - M[0][1] * M[1][0]
    t = None
    for j in range(n):
        minor = [r[:j] + r[j + 1:] for r in M[1:]]
        z = M[0][j] * det(minor)
        if j % 2:
            z = -z
        t = z if t is None else t + z
    return t


def matmul(A, B):
    return [[dot(r, [B[k][j] for k in range(len(B))]) for j in range(len(B[0]))] for r in A]


def matvec(A, v):
    return [dot(r, v) for r in A]


def transpose(A):
    return [list(c) for c in zip(*A)]


def cofactor_matrix(M):
    n = len(M)
    C = [[None] * n for _ in range(n)]
    for i in range(n):
        for j in range(n):
            minor = [r[:j] + r[j + 1:] for k, r in enumerate(M) if k != i]
            d = det(minor) if n > 1 else 1
            C[i][j] = -d if (i + j) % 2 else d
    return C


def adjugate(M):
    return transpose(cofactor_matrix(M))


def minors2(u, v):
    """all 2x2 minors of the 2 x n matrix (u; v)"""
    return [u[i] * v[j] - u[j] * v[i] for i in range(len(u)) for j in range(i + 1, len(u))]


def _fast_proportional(u, v):
    """syntactic shortcut (symbolic mode): if for a pivot k with v_k a non-zero polynomial all u_i v_k - u_k v_i are
    identically zero, then all 2x2 minors vanish identically (polynomial ring without reduction rules = integral domain)."""
    from symgeo.alg import Alg, Cx
    from symgeo.state import cur
    P = cur()
    us, vs = [], []
    for x in list(u) + list(v):
        if isinstance(x, Cx) or not isinstance(x, (Alg, int, float)):
            return False
    us = [Alg.of(x) for x in u]
    vs = [Alg.of(x) for x in v]
    rulevars = set(P.rules)
    for x in us + vs:
        if x.special or x.d is not None:
            return False
        if rulevars and (x.n.vars() & rulevars):
            return False
    for a, b in ((us, vs), (vs, us)):
        piv = next((k for k, x in enumerate(b) if not x.n.is_zero()), None)
        if piv is None:
            return all(x.n.is_zero() for x in b)   # b == 0 identically: dependent
        ok = True
        for i in range(len(a)):
            if i == piv:
                continue
            if not (a[i] * b[piv] - a[piv] * b[i]).n.is_zero():
                ok = False
                break
        if ok:
            return True
        return False
    return False


def proportional(ctx, u, v):
    """u, v linearly dependent (all 2x2 minors vanish)"""
    if ctx.symbolic and len(u) > 3:
        try:
            if _fast_proportional(u, v):
                from symgeo.alg import TRUE
                return TRUE
        except Exception:
            pass
    return ctx.all([ctx.is_zero(m) for m in minors2(u, v)])


def nonzero(ctx, u):
    z = ctx.all([ctx.is_zero(x) for x in u])
    return ~z if ctx.symbolic else (not z)


def neg(ctx, b):
    return ~b if ctx.symbolic else (not b)


def proj_equal(ctx, u, v):
    """same projective object: both non-zero and proportional"""
    return ctx.all([nonzero(ctx, u), nonzero(ctx, v), proportional(ctx, u, v)])


def cross3(u, v):
    return [u[1] * v[2] - u[2] * v[1], u[2] * v[0] - u[0] * v[2], u[0] * v[1] - u[1] * v[0]]


def max_minors(rows):
    """all maximal minors of a k x n matrix (k <= n) given as list of rows"""
    k, n = len(rows), len(rows[0])
    out = []
    for cols in itertools.combinations(range(n), k):
        out.append(det([[r[c] for c in cols] for r in rows]))
    return out


def rank_deficient(ctx, rows):
    return ctx.all([ctx.is_zero(m) for m in max_minors(rows)])


def plucker(p, q):
    """contravariant Pluecker matrix L^{ij} = p_i q_j - p_j q_i of the line through p, q (4-vectors)"""
    n = len(p)
    return [[p[i] * q[j] - p[j] * q[i] for j in range(n)] for i in range(n)]


def perm_sign(perm):
    s = 1
    perm = list(perm)
    for i in range(len(perm)):
        while perm[i] != i:
            j = perm[i]
            perm[i], perm[j] = perm[j], perm[i]
            s = -s
    return s


def eps(*idx):
    if len(set(idx)) < len(idx):
        return 0
    return perm_sign(idx)


def dual_plucker(L):
    """covariant line tensor  Ld_{ij} = 1/2 eps_{ijkl} L^{kl}  (4x4)"""
    n = 4
    D = [[0] * n for _ in range(n)]
    for i in range(n):
        for j in range(n):
            t = 0
            for k in range(n):
                for l in range(n):
                    e = eps(i, j, k, l)
                    if e:
                        t = t + e * L[k][l]
            D[i][j] = t / 2 if not isinstance(t, int) else t / 2
    return D


def line_from_planes(e, f):
    """covariant-type matrix e_i f_j - e_j f_i"""
    return plucker(e, f)
