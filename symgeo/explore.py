"""Path exploration by re-execution with a decision prefix, obligations, discharge ladder, counterexample replay."""
from __future__ import annotations

import math
import random
import time
import traceback
from fractions import Fraction

import numpy as _np
import z3

from . import state
from .alg import Alg, Cx, SymBool, TRUE, FALSE, SOLVER_STATS, new_input, is_sym_scalar
from .state import PathState, PathAbort, UnsupportedSymbolic, set_cur
from .symarr import SymArray, to_sym


class Violation(Exception):
    pass


# --------------------------------------------------------------------------- solver ladder

def _solve(constraints, timeout_ms, rlimit=None):
    s = z3.Solver()
    s.set("timeout", int(timeout_ms))
    if rlimit:
        s.set("rlimit", int(rlimit))
    for c in constraints:
        s.add(c)
    t = time.time()
    r = s.check()
    dt = time.time() - t
    SOLVER_STATS["queries"] += 1
    SOLVER_STATS["time"] += dt
    return str(r), s, dt


def _cvc5_check(constraints, timeout_ms):
    """second opinion: the same query (SMT-LIB2 text produced by z3) through the cvc5 binary in a subprocess with a hard timeout"""
    import os
    import shutil
    import subprocess
    import tempfile
    exe = shutil.which("cvc5")
    if not exe:
        return "unavailable"
    s = z3.Solver()
    for c in constraints:
        s.add(c)
    txt = "(set-logic QF_NRA)\n" + s.to_smt2()
    fd, path = tempfile.mkstemp(suffix=".smt2", prefix="symgeo_")
    try:
        with os.fdopen(fd, "w") as f:
            f.write(txt)
        p = subprocess.run([exe, f"--tlimit={int(timeout_ms)}", path], capture_output=True, text=True, timeout=timeout_ms / 1000.0 + 5)
        out = (p.stdout or "").strip().split("\n")[0].strip()
        if "(error" in (p.stdout or "") or "(error" in (p.stderr or ""):
            return "error"
        return out if out in ("sat", "unsat", "unknown") else "unknown"
    except subprocess.TimeoutExpired:
        return "unknown"
    except Exception:
        return "error"
    finally:
        try:
            os.unlink(path)
        except OSError:
            pass


class Budget:
    def __init__(self, tier="quick"):
        self.tier = tier
        self.max_paths = 400 if tier == "quick" else 3000
        self.ob_timeouts = (3000, 10000, 20000)
        self.ob_timeouts_long = None if tier == "quick" else (20000, 40000, 90000)
        self.reach_timeout = 1000 if tier == "quick" else 1500
        self.cross_check = tier != "quick"


# --------------------------------------------------------------------------- contexts

class BaseCtx:
    symbolic = True

    def __init__(self):
        self.obligations = []
        self.tag = None

    def outcome(self, tag):
        self.tag = tag


class SymCtx(BaseCtx):
    """harness-facing API in symbolic mode"""
    symbolic = True

    def __init__(self, P, runner):
        super().__init__()
        self.P = P
        self.runner = runner

    # inputs
    def real(self, name):
        return new_input(name, "int" if self.P.mode == "int" else "real")

    def reals(self, name, *shape):
        a = _np.empty(shape, dtype=object)
        for idx in _np.ndindex(*shape):
            a[idx] = self.real(name + "_" + "_".join(map(str, idx)))
        return SymArray(a, _np.dtype(float))

    def complexes(self, name, *shape):
        a = _np.empty(shape, dtype=object)
        for idx in _np.ndindex(*shape):
            nm = name + "_" + "_".join(map(str, idx))
            a[idx] = Cx(self.real(nm + "r"), self.real(nm + "i"))
        return SymArray(a, _np.dtype(complex))

    def const(self, arr, dtype=None):
        return to_sym(_np.asarray(arr), dtype)

    def angle(self, name):
        from .trig import new_angle
        return new_angle(name)

    # logic
    def assume(self, cond):
        cond = _sb(cond)
        if cond.val is True:
            return
        if cond.val is False:
            raise PathAbort("assumption is false")
        self.P.conds.append(cond.e)

    def require(self, name, cond, note=None):
        cond = _sb(cond)
        self.runner.check_obligation(self, name, cond, note)

    def fork(self, cond):
        """explicit case split in the harness"""
        return bool(_sb(cond))

    def hunt(self, name, cond, note=None):
        """bug-hunting only: bounded search (small integers / half-integers) for a counterexample to `cond` on this path.
        A counterexample that replays is a violation; finding none proves nothing and is reported as 'not refuted' --
        such obligations are outside the claim (used where the solver cannot decide infeasibility of a degenerate path)."""
        cond = _sb(cond)
        self.runner.hunt_obligation(self, name, cond, note)

    def define(self, name, value):
        """opaque named variable equal to `value` (keeps a sub-term shared/unexpanded for the solver)"""
        from .alg import fresh
        value = Alg.of(value)
        vid = self.P.named_var("def_" + name, "def")
        z = self.P.vars[vid].z
        self.P.add_def(z == value.z3())
        if value.d is None and not value.n.has_neg():
            self.P.__dict__.setdefault("_defvals", {})[vid] = value.n
        return Alg.var(vid)

    def unfold(self, x):
        """substitute the named variables introduced by define() by their values"""
        from .alg import Poly
        x = Alg.of(x)
        defs = self.P.__dict__.get("_defvals", {})
        if not defs or x.d is not None:
            return x
        out = Poly()
        for m, c in x.n.t.items():
            term = Poly({(): c})
            rest = []
            for v, e in m:
                if v in defs:
                    term = term * (defs[v] ** e)
                else:
                    rest.append((v, e))
            out = out + term.mulmono(tuple(rest))
        return Alg(out)

    def lemma_by_unfolding(self, name, lhs, rhs):
        """lhs == rhs holds syntactically once define()d names are unfolded: recorded as a discharged obligation
        (normal form) and made available to later solver queries with the names kept opaque"""
        d = self.unfold(Alg.of(lhs) - Alg.of(rhs))
        ok = d.is_zero_syntactic()
        self.runner.check_obligation(self, "lemma:" + name, TRUE if ok else _sb(Alg.of(lhs) == Alg.of(rhs)), None)
        if ok:
            c = _sb(Alg.of(lhs) == Alg.of(rhs))
            if c.val is None:
                self.P.conds.append(c.e)
        return ok

    def lemma(self, name, cond):
        """auxiliary fact: must be discharged like any obligation; once discharged it is available to later queries"""
        cond = _sb(cond)
        before = (len(self.runner.res.inconclusive), len(self.runner.res.violations), len(self.runner.res.unconfirmed))
        self.runner.check_obligation(self, "lemma:" + name, cond, None)
        after = (len(self.runner.res.inconclusive), len(self.runner.res.violations), len(self.runner.res.unconfirmed))
        if before == after and cond.val is not True:
            if cond.val is False:
                return
            self.P.conds.append(cond.e)

    # generic comparisons (work in both modes)
    def eq(self, a, b):
        return _sb(a == b)

    def is_zero(self, x):
        return _sb(x == 0)

    def le(self, a, b):
        return _sb(a <= b)

    def lt(self, a, b):
        return _sb(a < b)

    def all(self, items):
        r = TRUE
        for x in items:
            r = r & _sb(x)
        return r

    def any(self, items):
        r = FALSE
        for x in items:
            r = r | _sb(x)
        return r

    def truth(self, x):
        """library-returned boolean -> SymBool"""
        return _sb(x)

    def iff(self, a, b):
        return _sb(a) == _sb(b)

    def implies(self, a, b):
        return (~_sb(a)) | _sb(b)

    def neg(self, a):
        return ~_sb(a)

    def ne(self, a, b):
        return _sb(a != b)

    def ge(self, a, b):
        return _sb(a >= b)

    def gt(self, a, b):
        return _sb(a > b)

    def sqrt(self, x):
        from .alg import alg_sqrt
        return alg_sqrt(Alg.of(x))

    def note(self, s):
        self.P.notes.append(s)


def _sb(x):
    if isinstance(x, SymBool):
        return x
    if isinstance(x, SymArray):
        from .symarr import h_all
        r = h_all(x)
        return r if isinstance(r, SymBool) else SymBool.of(bool(r))
    if isinstance(x, _np.ndarray):
        return SymBool.of(bool(x.all()))
    if isinstance(x, (Alg, Cx)):
        return x != 0
    return SymBool.of(bool(x))


CONC_TOL = 1e-6


class ConcCtx(BaseCtx):
    """same API on plain floats: used to replay counterexamples and to validate path witnesses on the real code"""
    symbolic = False

    def __init__(self, env):
        super().__init__()
        self.env = env
        self.failed = []
        self.checked = []
        self.assumption_failed = False

    def _val(self, name):
        v = self.env.get(name)
        if v is None:
            # unconstrained by the model: deterministic pseudo-random small value
            rnd = random.Random(hash(name) & 0xFFFF)
            v = Fraction(rnd.randint(-5, 5))
            self.env[name] = v
        return float(v)

    def real(self, name):
        return self._val(name)

    def reals(self, name, *shape):
        a = _np.empty(shape, dtype=float)
        for idx in _np.ndindex(*shape):
            a[idx] = self._val(name + "_" + "_".join(map(str, idx)))
        return a

    def complexes(self, name, *shape):
        a = _np.empty(shape, dtype=complex)
        for idx in _np.ndindex(*shape):
            nm = name + "_" + "_".join(map(str, idx))
            a[idx] = complex(self._val(nm + "r"), self._val(nm + "i"))
        return a

    def const(self, arr, dtype=None):
        return _np.asarray(arr, dtype=dtype)

    def angle(self, name):
        return self._val(name)

    def assume(self, cond):
        if not _cb(cond):
            self.assumption_failed = True
            raise PathAbort("assumption false in concrete run")

    def require(self, name, cond, note=None):
        ok = _cb(cond)
        self.checked.append(name)
        if not ok:
            self.failed.append(name)

    def fork(self, cond):
        return _cb(cond)

    def hunt(self, name, cond, note=None):
        self.require(name, cond, note)

    def define(self, name, value):
        return value

    def lemma(self, name, cond):
        self.require("lemma:" + name, cond)

    def lemma_by_unfolding(self, name, lhs, rhs):
        self.require("lemma:" + name, self.eq(lhs, rhs))

    def unfold(self, x):
        return x

    def _scale(self, *xs):
        s = 1.0
        for x in xs:
            try:
                s = max(s, float(_np.max(_np.abs(x))))
            except Exception:
                pass
        return s

    def eq(self, a, b):
        a, b = _np.asarray(a), _np.asarray(b)
        return bool(_np.all(_np.abs(a - b) <= CONC_TOL * self._scale(a, b)))

    def is_zero(self, x):
        return bool(_np.all(_np.abs(_np.asarray(x)) <= CONC_TOL))

    def le(self, a, b):
        return bool(_np.all(_np.asarray(a) <= _np.asarray(b) + CONC_TOL * self._scale(a, b)))

    def lt(self, a, b):
        return bool(_np.all(_np.asarray(a) < _np.asarray(b) - CONC_TOL * self._scale(a, b)))

    def all(self, items):
        return all(_cb(x) for x in items)

    def any(self, items):
        return any(_cb(x) for x in items)

    def truth(self, x):
        return _cb(x)

    def iff(self, a, b):
        return _cb(a) == _cb(b)

    def implies(self, a, b):
        return (not _cb(a)) or _cb(b)

    def neg(self, a):
        return not _cb(a)

    def ne(self, a, b):
        return not self.eq(a, b)

    def ge(self, a, b):
        return self.le(b, a)

    def gt(self, a, b):
        return self.lt(b, a)

    def sqrt(self, x):
        return math.sqrt(max(x, 0.0))

    def note(self, s):
        pass


def _cb(x):
    if isinstance(x, _np.ndarray):
        return bool(x.all())
    return bool(x)


# --------------------------------------------------------------------------- runner

class CaseResult:
    def __init__(self, name):
        self.name = name
        self.paths = 0
        self.forks = 0
        self.outcomes = {}
        self.obligations = 0          # distinct obligations discharged (cache misses)
        self.ob_total = 0             # require() calls
        self.ob_other_property = 0    # require() calls dropped by a harness filter because they belong to the sibling property of a shared harness
        self.by_step = {"syntactic": 0, "t0": 0, "t1": 0, "t2": 0}
        self.inconclusive = []
        self.violations = []          # dicts: case, obligation, env, replayed
        self.unconfirmed = []
        self.unsupported = []
        self.errors = []
        self.reach = {"sat": 0, "unknown": 0, "unsat": 0}
        self.validated = 0
        self.validation_mismatch = []
        self.solver_time = 0.0
        self.wall = 0.0
        self.samples = []
        self.functions = set()
        self.cross = {"agree": 0, "disagree": 0, "skipped": 0}
        self.lemmas = set()
        self.hunted = 0
        self.not_refuted = 0

    def to_dict(self):
        d = dict(self.__dict__)
        d["functions"] = sorted(self.functions)
        d["lemmas"] = sorted(self.lemmas)
        return d


def model_env(model, P):
    env = {}
    for vid in P.input_vids:
        vi = P.vars[vid]
        v = model.eval(vi.z, model_completion=True)
        env[vi.name] = _z3_to_fraction(v)
    # symbolic angles created by the harness: value from the model's (cos, sin) pair
    for vi in P.vars:
        if vi.kind == "angle" and ("cos_" + vi.name) in P.by_name:
            c = _z3_to_fraction(model.eval(P.vars[P.by_name["cos_" + vi.name]].z, model_completion=True))
            s_ = _z3_to_fraction(model.eval(P.vars[P.by_name["sin_" + vi.name]].z, model_completion=True))
            env[vi.name] = Fraction(math.atan2(float(s_), float(c)))
    return env


def _z3_to_fraction(v):
    if z3.is_int_value(v):
        return Fraction(v.as_long())
    if z3.is_rational_value(v):
        return Fraction(v.numerator_as_long(), v.denominator_as_long())
    if z3.is_algebraic_value(v):
        a = v.approx(20)
        return Fraction(a.numerator_as_long(), a.denominator_as_long())
    try:
        return Fraction(str(v))
    except Exception:
        return Fraction(0)


def _nice_model(constraints, P, timeout_ms=2500, scales=((1, 4), (1, 12), (2, 16), (4, 64))):
    """try to find a model with small integer / half-integer inputs (replays exactly in floats)"""
    ins = [P.vars[v].z for v in P.input_vids]
    reals = [x for x in ins if x.sort() == z3.RealSort()]
    for scale, bound in scales:
        s = z3.Solver()
        s.set("timeout", timeout_ms)
        for c in constraints:
            s.add(c)
        for i, x in enumerate(ins):
            if x.sort() == z3.RealSort():
                k = z3.Int(f"nice!{i}")
                s.add(x * scale == z3.ToReal(k))
                s.add(k >= -bound, k <= bound)
        if s.check() == z3.sat:
            return s.model()
    return None


class Runner:
    def __init__(self, case_name, fn, budget, mode="real", seed=0):
        self.case_name = case_name
        self.fn = fn
        self.budget = budget
        self.mode = mode
        self.seed = seed
        self.res = CaseResult(case_name)
        self.cache = {}
        self.stop = False

    # ---- obligations
    def check_obligation(self, ctx, name, cond, note):
        res = self.res
        res.ob_total += 1
        P = ctx.P
        if cond.val is True:
            key = ("T", name)
            if key not in self.cache:
                self.cache[key] = "unsat"
                res.obligations += 1
                res.by_step["syntactic"] += 1
                if len(res.samples) < 6:
                    res.samples.append({"case": self.case_name, "obligation": name, "verdict": "unsat (residual normalises to 0)", "path": _dec_str(P)})
            return
        neg = z3.Not(cond.e) if cond.val is None else z3.BoolVal(True)
        key = (name, neg.hash(), tuple(c.hash() for c in P.conds), tuple(f.hash() for _, f in P.defs), tuple(c.hash() for c in P.order_conds))
        if key in self.cache:
            return
        res.obligations += 1
        verdict = None
        model = None
        used = None
        # ladder step: linear abstraction with zero-product axioms (can only conclude unsat)
        try:
            from .absnl import abstract, Abstraction
            A_ = P.__dict__.get("_abs")
            if A_ is None:
                A_ = P.__dict__["_abs"] = Abstraction()
            if P.__dict__.get("_abs_off"):
                raise OverflowError("abstraction disabled on this path")
            for tier in (0, 2):
                if tier == 2 and not (P.order_conds or any(t > 0 for t, _ in P.defs)):
                    break
                r, s, dt = _solve(abstract(P.constraints(tier) + [neg], A_), min(4000, self.budget.ob_timeouts[0]))
                if r == "unsat":
                    verdict = "unsat"
                    used = "abs"
                    break
        except OverflowError:
            P.__dict__["_abs_off"] = True
        except Exception:
            pass
        rounds = [(t, to) for t, to in zip((0, 1, 2), self.budget.ob_timeouts)]
        if getattr(self.budget, "ob_timeouts_long", None):
            # thorough: first the quick ladder over all tiers, then the long timeouts (an obligation that needs the tier-2
            # ordering constraints must not wait for the long tier-0 / tier-1 timeouts)
            rounds += [(t, to) for t, to in zip((0, 1, 2), self.budget.ob_timeouts_long)]
        for tier, to in rounds:
            if verdict in ("unsat", "sat"):
                break
            cons = P.constraints(tier) + [neg]
            r, s, dt = _solve(cons, to)
            if r == "unsat":
                verdict = "unsat"
                used = tier
                break
            if r == "sat":
                # only believed with the full constraint set
                if tier == 2 or (not any(t > tier for t, _ in P.defs) and (tier == 2 or not P.order_conds)):
                    verdict = "sat"
                    model = s.model()
                    used = tier
                    break
                continue
            # unknown: try next tier anyway (more constraints can make it easier), remember
            verdict = "unknown"
        if verdict == "unsat" and used == "abs":
            res.by_step["linear-abstraction"] = res.by_step.get("linear-abstraction", 0) + 1
            if len(res.samples) < 6:
                res.samples.append({"case": self.case_name, "obligation": name, "verdict": "unsat (linear abstraction + zero-product axioms, z3)", "path": _dec_str(P)})
        elif verdict == "unsat":
            res.by_step[f"t{used}"] += 1
            if self.budget.cross_check and res.cross["agree"] + res.cross["disagree"] + res.cross["skipped"] < 6:
                c5 = _cvc5_check(P.constraints(used) + [neg], 10000)
                if c5 == "unsat":
                    res.cross["agree"] += 1
                elif c5 == "sat":
                    res.cross["disagree"] += 1
                    res.errors.append(f"solver disagreement on {name}: z3 unsat, cvc5 sat")
                else:
                    res.cross["skipped"] += 1
            if len(res.samples) < 6:
                res.samples.append({"case": self.case_name, "obligation": name, "verdict": f"unsat (z3, tier {used})", "path": _dec_str(P)})
        if verdict not in ("unsat", "sat"):
            # undecided by the ladder: bounded search for a small-integer counterexample (can only turn it into a violation)
            nm0 = _nice_model(P.constraints(2) + [neg], P, timeout_ms=min(4000, self.budget.ob_timeouts[1]), scales=((1, 3), (1, 8), (2, 12)))
            if nm0 is not None:
                verdict = "sat"
                model = nm0
        if verdict == "sat":
            cons = P.constraints(2) + [neg]
            nm = _nice_model(cons, P)
            envs = []
            if nm is not None:
                envs.append(model_env(nm, P))
            envs.append(model_env(model, P))
            confirmed = None
            for env in envs:
                ok, info = self.replay(env, name)
                if ok:
                    confirmed = (env, info)
                    break
            rec = {"case": self.case_name, "obligation": name, "note": note, "path": _dec_str(P),
                   "env": {k: str(v) for k, v in (confirmed[0] if confirmed else envs[-1]).items()}}
            if confirmed:
                rec["replay"] = confirmed[1]
                res.violations.append(rec)
            else:
                res.unconfirmed.append(rec)
        elif verdict != "unsat":
            res.inconclusive.append({"case": self.case_name, "obligation": name, "path": _dec_str(P), "why": "solver unknown/timeout"})
        self.cache[key] = verdict

    def hunt_obligation(self, ctx, name, cond, note):
        res = self.res
        P = ctx.P
        if cond.val is True:
            return
        neg = z3.Not(cond.e) if cond.val is None else z3.BoolVal(True)
        key = ("hunt", name, neg.hash(), tuple(c.hash() for c in P.conds), tuple(c.hash() for c in P.order_conds))
        if key in self.cache:
            return
        self.cache[key] = "hunt"
        res.hunted = getattr(res, "hunted", 0) + 1
        nm = _nice_model(P.constraints(2) + [neg], P, timeout_ms=1500, scales=((1, 3), (1, 8), (2, 12)))
        if nm is None:
            res.not_refuted = getattr(res, "not_refuted", 0) + 1
            return
        env = model_env(nm, P)
        ok, info = self.replay(env, name)
        rec = {"case": self.case_name, "obligation": name, "note": note, "path": _dec_str(P), "env": {k: str(v) for k, v in env.items()}}
        if ok:
            rec["replay"] = info
            res.violations.append(rec)
        else:
            res.unconfirmed.append(rec)

    # ---- replay on the real code, plain numpy
    def replay(self, env, obligation=None):
        env = dict(env)
        prev = state.CUR
        set_cur(None)
        ctx = ConcCtx(env)
        info = {}
        try:
            with _np.errstate(all="ignore"):
                self.fn(ctx)
        except PathAbort:
            pass
        except Exception as e:  # unexpected exception in the library
            info["exception"] = f"{type(e).__name__}: {e}"
            ctx.failed.append("no-unexpected-exception")
        finally:
            set_cur(prev)
        info["failed"] = list(ctx.failed)
        info["tag"] = ctx.tag
        if ctx.assumption_failed:
            return False, info
        if obligation is None:
            return (not ctx.failed), info
        return (obligation in ctx.failed), info

    # ---- exploration
    def run(self):
        res = self.res
        t0 = time.time()
        q0 = SOLVER_STATS["time"] + SOLVER_STATS["fork_time"]
        pending = [[]]
        seen = 0
        while pending and not self.stop:
            dec = pending.pop()
            if seen >= self.budget.max_paths:
                res.inconclusive.append({"case": self.case_name, "obligation": "*", "why": f"path budget {self.budget.max_paths} exceeded"})
                break
            seen += 1
            P = PathState(dec, mode=self.mode)
            set_cur(P)
            ctx = SymCtx(P, self)
            tag = None
            try:
                self.fn(ctx)
                tag = ctx.tag or "ok"
            except PathAbort as e:
                tag = "abort:" + str(e)
            except UnsupportedSymbolic as e:
                tag = "unsupported"
                res.unsupported.append({"case": self.case_name, "what": str(e), "path": _dec_str(P), "where": _where()})
            except Violation:
                tag = "violation"
            except RecursionError as e:
                tag = "exception:RecursionError"
                self._unexpected(ctx, P, e)
            except Exception as e:
                tag = "exception:" + type(e).__name__
                self._unexpected(ctx, P, e)
            finally:
                set_cur(None)
                from .loader import purge_symbolic_caches
                purge_symbolic_caches()
            res.paths += 1
            res.forks += P.forks
            res.outcomes[tag] = res.outcomes.get(tag, 0) + 1
            res.lemmas |= P.lemmas_used
            pending.extend(P.pending)
            if not tag.startswith("abort") and tag != "unsupported":
                self._reach(P, ctx, tag)
        res.wall = time.time() - t0
        res.solver_time = SOLVER_STATS["time"] + SOLVER_STATS["fork_time"] - q0
        return res

    def _unexpected(self, ctx, P, e):
        """an exception the harness did not expect escaped the library: violation iff the path is feasible"""
        tb = traceback.format_exc(limit=6)
        set_cur(P)
        try:
            self.check_obligation(ctx, "no-unexpected-exception", FALSE, note=f"{type(e).__name__}: {e}\n{tb}")
        finally:
            set_cur(None)

    def _reach(self, P, ctx, tag):
        res = self.res
        if sum(res.reach.values()) >= (30 if self.budget.tier == "quick" else 60):
            res.reach["unchecked"] = res.reach.get("unchecked", 0) + 1
            return
        r, s, dt = _solve(P.constraints(2), self.budget.reach_timeout, rlimit=3000000)
        res.reach[r if r in res.reach else "unknown"] += 1
        if r == "sat" and res.validated + len(res.validation_mismatch) < 12:
            # validate the path witness against the real implementation
            m = _nice_model(P.constraints(2), P, 400, scales=((1, 6), (2, 16))) or s.model()
            env = model_env(m, P)
            ok, info = self.replay(env, None)
            if info.get("failed") or (info.get("tag") or "ok") != tag:
                # float fuzz on measure-zero paths is possible; record, do not fail
                res.validation_mismatch.append({"case": self.case_name, "path": _dec_str(P), "sym_tag": tag, "info": info,
                                                "env": {k: str(v) for k, v in env.items()}})
            else:
                res.validated += 1


def _dec_str(P):
    return "".join("T" if d else "F" for d in P.decisions)


def _where():
    tb = traceback.extract_tb(__import__("sys").exc_info()[2])
    fr = [f for f in tb if "/geometer/" in f.filename]
    if fr:
        f = fr[-1]
        return f"{f.filename.split('/geometer/')[-1]}:{f.lineno} {f.line}"
    f = tb[-1]
    return f"{f.filename}:{f.lineno} {f.line}"


def run_case(name, fn, tier="quick", mode="real", seed=0, max_paths=None, timeouts=None):
    b = Budget(tier)
    if max_paths:
        b.max_paths = max_paths
    if timeouts:
        b.ob_timeouts = timeouts
    r = Runner(name, fn, b, mode=mode, seed=seed)
    return r.run()
