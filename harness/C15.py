"""C15 - degenerate quadrics split into their components; conics meet in (at most) four common points."""
from __future__ import annotations

import itertools
import random
import time

import numpy as np

from symgeo.driver import Case
from symgeo import refgeo as R
from harness.common import vec, E
from harness.tr import mk_array

EVIDENCE = {
    "functions": ["Conic.from_lines", "QuadricTensor.from_planes", "QuadricTensor.components (2-D adjugate branch, 3-D minors branch)", "QuadricTensor.is_degenerate", "QuadricTensor.__init__(normalize_matrix=True)",
                  "utils.math.adjugate/hat_matrix/is_multiple", "Conic.intersect(Conic) (concrete pencils, tier attempt)"],
    "bounds": "from_lines: one line free reals x one line from a lattice family covering every sign pattern class (zero coordinates, opposite signs); additionally every pair of lines / planes "
              "with coordinates in {-2..2} is enumerated concretely (sign-pattern quantifier of the property; seeded subset in quick); is_degenerate: symmetric 3x3 with free reals",
    "outside": "3-D collections mixing reducible and irreducible members (one supplementary concrete case), two symbolic lines at once (path explosion of the two pivot searches), conic x conic intersection (roots + nested complex radicals: tier 'attempt'), 'every common point is among "
               "the returned ones' (a forall-exists statement), rounding",
    "assumptions": ["np.linalg.eigvalsh: real eigenvalues (stub); the normalisation factor is a positive unknown", "ProjectiveTensor.__eq__/is_multiple: lemma proved in C20"],
}


def _setup():
    from symgeo.lemmas import use_is_multiple_lemma
    use_is_multiple_lemma(True)


HLINES = [[1, 1, 0], [-1, -2, -3], [0, 1, 0], [1, -1, 2], [0, 0, 1], [2, 0, -1]]


def mk_from_lines(k):
    def case(ctx):
        from geometer import Conic, Line
        g = vec(ctx, "g", 3)
        ge = E(g)
        ctx.assume(R.nonzero(ctx, ge))
        he = [x for x in HLINES[k]]
        ctx.assume(ctx.neg(R.proportional(ctx, ge, he)))
        C = Conic.from_lines(Line(g), Line(ctx.const(he, float)))
        ctx.require("from_lines:is_degenerate", ctx.truth(C.is_degenerate))
        from geometer.exceptions import NotReducible
        try:
            comps = C.components
        except NotReducible:
            ctx.outcome("NotReducible")
            ctx.require("from_lines:components-do-not-raise", False)
            return
        ctx.outcome("components")
        ctx.require("components:two", len(comps) == 2)
        a, b = E(comps[0]), E(comps[1])
        direct = ctx.all([R.proportional(ctx, a, ge), R.proportional(ctx, b, he)])
        swapped = ctx.all([R.proportional(ctx, a, he), R.proportional(ctx, b, ge)])
        ctx.require("components:are-the-two-lines", ctx.any([direct, swapped]))
        ctx.require("components:nonzero", ctx.all([R.nonzero(ctx, a), R.nonzero(ctx, b)]))
        ctx.require("components:class", type(comps[0]).__name__ == "Line" and type(comps[1]).__name__ == "Line")
    return case


def case_is_degenerate(ctx):
    from geometer import Conic
    from geometer.exceptions import NotReducible
    s = ctx.reals("s", 3, 3)
    S = R.mat(s)
    rows = [[S[min(i, j)][max(i, j)] for j in range(3)] for i in range(3)]
    ctx.assume(R.nonzero(ctx, [x for r in rows for x in r]))
    C = Conic(mk_array(ctx, rows))
    ctx.require("is_degenerate:iff-det=0", ctx.iff(ctx.truth(C.is_degenerate), ctx.is_zero(R.det(rows))))


def custom_sign_patterns(tier, seed):
    """every pair of distinct lines (planes) with small integer coordinates: components == the pair (concrete evaluation of the real code)"""
    from geometer import Conic, Quadric, Line, Plane
    from geometer.exceptions import NotReducible
    t0 = time.time()
    res = {"paths": 0, "forks": 0, "obligations": 0, "ob_total": 0, "violations": [], "inconclusive": [], "samples": [], "by_step": {"enumerated": 0},
           "outcomes": {}, "reach": {}, "validated": 0, "solver_time": 0.0}
    rnd = random.Random(seed)

    def prop(u, v):
        u, v = np.asarray(u, float), np.asarray(v, float)
        m = np.abs(np.outer(u, v) - np.outer(v, u)).max()
        return m < 1e-7 * max(1.0, np.abs(u).max() * np.abs(v).max())
    seen = set()
    for dim, vals in ((2, (-2, -1, 0, 1, 2)), (3, (-1, 0, 1, 2))):
        vecs = [v for v in itertools.product(vals, repeat=dim + 1) if any(v)]
        pairs = [(a, b) for a in vecs for b in vecs if not prop(a, b)]
        rnd.shuffle(pairs)
        pairs = pairs[: (600 if tier == "quick" else 6000)]
        for a, b in pairs:
            res["ob_total"] += 1
            res["obligations"] += 1
            res["by_step"]["enumerated"] += 1
            res["paths"] += 1
            name = None
            try:
                if dim == 2:
                    q = Conic.from_lines(Line(*a), Line(*b))
                else:
                    q = Quadric.from_planes(Plane(*a), Plane(*b))
                if not bool(q.is_degenerate):
                    name = f"{dim}d:not-reported-degenerate"
                else:
                    c0, c1 = q.components
                    x, y = np.real_if_close(c0.array), np.real_if_close(c1.array)
                    ok = (prop(x, a) and prop(y, b)) or (prop(x, b) and prop(y, a))
                    ok = ok and np.abs(x).max() > 1e-9 and np.abs(y).max() > 1e-9
                    if not ok:
                        name = f"{dim}d:components-are-not-the-pair"
            except NotReducible:
                name = f"{dim}d:NotReducible-for-a-pair-of-{'lines' if dim == 2 else 'planes'}"
            except Exception as e:
                name = f"{dim}d:{type(e).__name__}"
            if name and name not in seen:
                seen.add(name)
                res["violations"].append({"case": "sign_patterns", "obligation": name, "env": {"a": str(a), "b": str(b)}, "replay": {"failed": [name]}})
            elif not name and len(res["samples"]) < 4:
                res["samples"].append({"case": "sign_patterns", "pair": [list(a), list(b)], "verdict": "components are the pair"})
    res["wall"] = time.time() - t0
    return res


def custom_conic_conic(tier, seed):
    """concrete pencils (supplementary, not a solver verdict): every returned point lies on both conics, at most four, known real common points are returned"""
    from geometer import Conic, Circle, Point, Line
    t0 = time.time()
    res = {"paths": 0, "forks": 0, "obligations": 0, "ob_total": 0, "violations": [], "inconclusive": [], "samples": [], "by_step": {"evaluated": 0},
           "outcomes": {}, "reach": {}, "validated": 0, "solver_time": 0.0}
    axes = Conic.from_lines(Line(1, 0, 0), Line(0, 1, 0))
    pairs = {
        "circle-circle": (Circle(Point(0, 0), 5), Circle(Point(6, 0), 5), [(3, 4), (3, -4)]),
        "axes-pair/circle(3,0)r1": (axes, Circle(Point(3, 0), 1), [(2, 0), (4, 0)]),
        "axes-pair/circle(0,0)r2": (axes, Circle(Point(0, 0), 2), [(2, 0), (-2, 0), (0, 2), (0, -2)]),
        "circle/axes-pair": (Circle(Point(3, 0), 1), axes, [(2, 0), (4, 0)]),
        "ellipse/circle": (Conic(np.diag([1.0, 4.0, -4.0])), Circle(Point(0, 0), 1.5), []),
    }
    for name, (c1, c2, known) in pairs.items():
        res["ob_total"] += 1
        res["obligations"] += 1
        res["by_step"]["evaluated"] += 1
        res["paths"] += 1
        bad = None
        try:
            pts = c1.intersect(c2)
            if len(pts) > 4:
                bad = "more-than-four-points"
            for p in pts:
                x = np.asarray(p.array, dtype=complex)
                x = x / np.abs(x).max()
                for A in (c1.array, c2.array):
                    A = np.asarray(A, dtype=complex)
                    if abs(x @ A @ x) > 1e-6 * np.abs(A).max():
                        bad = "returned-point-not-on-both-conics"
            for k in known:
                kk = np.array([k[0], k[1], 1.0])
                if not any(np.abs(np.cross(np.asarray(p.array, dtype=complex) / np.abs(p.array).max(), kk)).max() < 1e-6 for p in pts):
                    bad = bad or "known-common-point-missing"
        except Exception as e:
            bad = f"{type(e).__name__}"
        if bad:
            res["violations"].append({"case": "conic_conic_lattice", "obligation": f"{name}:{bad}", "env": {}, "replay": {"failed": [f"{name}:{bad}"]}})
        elif len(res["samples"]) < 3:
            res["samples"].append({"case": "conic_conic_lattice", "pencil": name, "verdict": "returned points lie on both conics (concrete evaluation)"})
    res["wall"] = time.time() - t0
    return res


def custom_mixed_collection(tier, seed):
    """supplementary concrete case: a 3-D QuadricCollection holding a reducible member (pair of planes) and a degenerate but irreducible one (cone):
    .components either raises NotReducible or every reported pair of planes reproduces the quadratic form of its member"""
    from geometer import Plane, Cone, Quadric, QuadricCollection
    from geometer.exceptions import NotReducible
    t0 = time.time()
    res = {"paths": 1, "forks": 0, "obligations": 0, "ob_total": 0, "violations": [], "inconclusive": [], "samples": [], "by_step": {"evaluated": 0},
           "outcomes": {}, "reach": {}, "validated": 0, "solver_time": 0.0}
    for order in ((0, 1), (1, 0)):
        members = [Quadric.from_planes(Plane(1, 2, 3, 4), Plane(4, 3, 2, 1)), Cone()]
        q = QuadricCollection([members[i] for i in order])
        res["ob_total"] += 1
        res["obligations"] += 1
        res["by_step"]["evaluated"] += 1
        bad = None
        try:
            comp = q.components
        except NotReducible:
            comp = None
        except Exception as e:
            bad = f"mixed-collection{order}:{type(e).__name__}"
            comp = None
        if comp is not None:
            rnd = np.random.default_rng(0)
            xs = rnd.integers(-3, 4, size=(8, 4)).astype(float)
            for k in range(2):
                a, b = np.asarray(comp[0].array[k]), np.asarray(comp[1].array[k])
                m = np.asarray(q.array[k])
                quad = np.einsum("ni,ij,nj->n", xs, m, xs)
                prod = (xs @ a) * (xs @ b)
                sel = np.abs(quad) > 1e-9
                ratio = prod[sel] / quad[sel]
                if not (sel.any() and np.allclose(ratio, ratio[0]) and abs(ratio[0]) > 1e-12 and np.allclose(prod[~sel], 0, atol=1e-9)):
                    bad = f"mixed-collection{order}:member[{k}]-reported-reducible-but-is-not-the-product-of-the-planes"
        if bad:
            res["violations"].append({"case": "mixed_collection", "obligation": bad, "env": {}, "replay": {"failed": [bad]}})
    res["wall"] = time.time() - t0
    return res


def cases(tier, seed):
    Q, T = ("quick", "thorough"), ("thorough",)
    cs = []

    def add(name, fn, **kw):
        cs.append(Case(name, fn, setup=_setup, **kw))
    for k in range(len(HLINES)):
        add(f"from_lines_free_x_h{k}", mk_from_lines(k), tiers=Q, max_paths=4000)
    add("is_degenerate", case_is_degenerate, tiers=Q)
    cs.append(Case("sign_patterns", custom_sign_patterns, kind="custom"))
    cs.append(Case("conic_conic_lattice", custom_conic_conic, kind="custom"))
    cs.append(Case("mixed_collection", custom_mixed_collection, kind="custom"))
    return cs
