"""C17 - polytope measures equal closed forms; polytope equality ignores vertex order."""
from __future__ import annotations

import numpy as np

from symgeo.driver import Case
from symgeo import refgeo as R
from harness.common import vec, E
from harness.tr import mk_array

EVIDENCE = {
    "functions": ["PolygonTensor.area/_normalized_projection", "Polygon.centroid", "Simplex.volume (determinant and Cayley-Menger branches)", "SegmentTensor.midpoint", "Triangle.circumcenter",
                  "RegularPolygon.__init__/center/radius/inradius", "PolytopeTensor.__eq__", "Cuboid.__init__", "Polyhedron.area/faces", "transformation.rotation/translation (exact trig values)"],
    "bounds": "polygons with 3-5 free real vertices (2-D, weight 1; one case with free weights), triangle in 3-space (Cayley-Menger), tetrahedron and planar triangle with free non-zero vertex weights, area of 3 lattice polygons in 4 planes of 3-space with a free real offset along the normal, regular polygons with n in {3, 4, 6} "
              "(pi symbolic, exact algebraic cos/sin), centre and radius free reals; cuboid with free origin and edge lengths along the axes; cyclic shifts / reversal of the vertex list",
    "outside": "polygons in a fully symbolic plane of 3-space, Cuboid/Polyhedron.area (sum of six radical face areas: attempted, tier 'attempt', undecided -> not claimed), regular polygons with n not in {3,4,6}, polygons embedded in general position in 3-space (QR stub + radicals: thorough/attempt), general parallelepipeds, rounding",
    "assumptions": ["np.cos/np.sin: exact values at multiples of pi/12 (stub)", "ProjectiveTensor.__eq__/is_multiple: lemma proved in C20"],
}


def _setup():
    from symgeo.lemmas import use_is_multiple_lemma
    use_is_multiple_lemma(True)


def _pts2(ctx, k, weights=False):
    out = []
    for i in range(k):
        x, y = ctx.real(f"x{i}"), ctx.real(f"y{i}")
        if weights:
            w = ctx.real(f"w{i}")
            ctx.assume(ctx.neg(ctx.is_zero(w)))
            out.append(([x, y], [w * x, w * y, w]))
        else:
            out.append(([x, y], [x, y, 1]))
    return out


def _shoelace2(P):
    n = len(P)
    return sum_(P[i][0] * P[(i + 1) % n][1] - P[(i + 1) % n][0] * P[i][1] for i in range(n))


def sum_(it):
    t = None
    for x in it:
        t = x if t is None else t + x
    return t


def mk_area2d(k, weights=False):
    def case(ctx):
        from geometer import Polygon, Point
        pts = _pts2(ctx, k, weights)
        poly = Polygon(*[Point(mk_array(ctx, h)) for _, h in pts])
        A = poly.area
        S2 = _shoelace2([c for c, _ in pts])     # twice the signed area
        ctx.require("area:nonnegative", ctx.le(0, A))
        ctx.require("area:square-is-shoelace", ctx.eq(4 * A * A, S2 * S2))
        # cyclic shift and reversal
        for name, order in (("shift", list(range(1, k)) + [0]), ("reversed", list(range(k - 1, -1, -1)))):
            B = Polygon(*[Point(mk_array(ctx, pts[i][1])) for i in order]).area
            ctx.require(f"area:{name}-invariant", ctx.eq(A, B))
    return case


def mk_centroid(k):
    def case(ctx):
        from geometer import Polygon, Point
        pts = _pts2(ctx, k)
        C = [c for c, _ in pts]
        S2 = _shoelace2(C)
        ctx.assume(ctx.neg(ctx.is_zero(S2)))
        poly = Polygon(*[Point(mk_array(ctx, h)) for _, h in pts])
        try:
            c = poly.centroid
        except ZeroDivisionError:
            ctx.outcome("ZeroDivisionError")
            ctx.require("centroid:defined-for-nonzero-area", False)
            return
        ce = E(c)
        n = k
        cx = sum_((C[i][0] + C[(i + 1) % n][0]) * (C[i][0] * C[(i + 1) % n][1] - C[(i + 1) % n][0] * C[i][1]) for i in range(n))
        cy = sum_((C[i][1] + C[(i + 1) % n][1]) * (C[i][0] * C[(i + 1) % n][1] - C[(i + 1) % n][0] * C[i][1]) for i in range(n))
        # centroid = (cx, cy) / (3 * S2)
        ctx.require("centroid:x", ctx.eq(ce[0] * 3 * S2, cx * ce[2]))
        ctx.require("centroid:y", ctx.eq(ce[1] * 3 * S2, cy * ce[2]))
        ctx.require("centroid:finite", ctx.neg(ctx.is_zero(ce[2])))
    return case


def case_simplex_volume(ctx, weights=False):
    from geometer import Triangle, Simplex, Point
    # triangle in the plane: determinant branch
    pts = _pts2(ctx, 3, weights)
    T = Triangle(*[Point(mk_array(ctx, h)) for _, h in pts])
    V = T.volume
    S2 = _shoelace2([c for c, _ in pts])
    ctx.require("volume:triangle2d:nonnegative", ctx.le(0, V))
    ctx.require("volume:triangle2d:square", ctx.eq(4 * V * V, S2 * S2))


def case_tetra_volume(ctx, weights=False):
    from geometer import Simplex, Point
    P = [[ctx.real(f"{k}{i}") for i in range(3)] for k in "abcd"]
    D = R.det([p + [1] for p in P])
    ctx.assume(ctx.neg(ctx.is_zero(D)))
    if weights:
        # every vertex given by an arbitrary non-zero multiple of (x, y, z, 1)
        W = [ctx.real(f"w{k}") for k in "abcd"]
        for w in W:
            ctx.assume(ctx.neg(ctx.is_zero(w)))
        S = Simplex(*[Point(mk_array(ctx, [w * x for x in p] + [w])) for p, w in zip(P, W)])
    else:
        S = Simplex(*[Point(mk_array(ctx, p + [1])) for p in P])
    V = S.volume
    ctx.require("volume:tetrahedron:nonnegative", ctx.le(0, V))
    ctx.require("volume:tetrahedron:square", ctx.eq(36 * V * V, D * D))


def case_triangle3d_volume(ctx):
    """Cayley-Menger branch: triangle in 3-space, area^2 = |u x v|^2 / 4"""
    from geometer import Triangle, Point
    P = [[ctx.real(f"{k}{i}") for i in range(3)] for k in "abc"]
    u = [P[1][i] - P[0][i] for i in range(3)]
    v = [P[2][i] - P[0][i] for i in range(3)]
    cr = R.cross3(u, v)
    n2 = sum_(x * x for x in cr)
    ctx.assume(ctx.neg(ctx.is_zero(n2)))
    from geometer.exceptions import LinearDependenceError
    try:
        T = Triangle(*[Point(mk_array(ctx, p + [1])) for p in P])
    except LinearDependenceError:
        ctx.outcome("LDE")
        ctx.hunt("volume:triangle3d:constructible-for-proper-triangles", False)
        return
    V = T.volume
    if ctx.symbolic and getattr(V, "special", None):
        ctx.require("volume:triangle3d:defined", False)
        return
    ctx.require("volume:triangle3d:nonnegative", ctx.le(0, V))
    ctx.require("volume:triangle3d:square", ctx.eq(4 * V * V, n2))


def case_midpoint(ctx):
    from geometer import Segment, Point
    (A, ah), (B, bh) = _pts2(ctx, 2, weights=True)
    ctx.assume(ctx.neg(ctx.all([ctx.is_zero(A[0] - B[0]), ctx.is_zero(A[1] - B[1])])))
    from geometer.exceptions import LinearDependenceError
    try:
        m = Segment(Point(mk_array(ctx, ah)), Point(mk_array(ctx, bh))).midpoint
    except LinearDependenceError:
        ctx.outcome("LDE")
        ctx.hunt("midpoint:defined-for-distinct-end-points", False)
        return
    me = E(m)
    ctx.require("midpoint:x", ctx.eq(2 * me[0], (A[0] + B[0]) * me[2]))
    ctx.require("midpoint:y", ctx.eq(2 * me[1], (A[1] + B[1]) * me[2]))
    ctx.require("midpoint:finite", ctx.neg(ctx.is_zero(me[2])))


def case_circumcenter(ctx):
    from geometer import Triangle, Point
    pts = _pts2(ctx, 3)
    C = [c for c, _ in pts]
    ctx.assume(ctx.neg(ctx.is_zero(_shoelace2(C))))
    from geometer.exceptions import LinearDependenceError
    try:
        o = Triangle(*[Point(mk_array(ctx, h)) for _, h in pts]).circumcenter
    except LinearDependenceError:
        ctx.outcome("LDE")
        ctx.hunt("circumcenter:defined-for-proper-triangles", False)
        return
    oe = E(o)
    def bis(p, q):
        # o on the perpendicular bisector of pq  <=>  |o-p|^2 = |o-q|^2  <=>  (2 o - (p+q) w).(q-p) = 0  (linear in o)
        return (2 * oe[0] - (p[0] + q[0]) * oe[2]) * (q[0] - p[0]) + (2 * oe[1] - (p[1] + q[1]) * oe[2]) * (q[1] - p[1])
    ctx.require("circumcenter:finite", ctx.neg(ctx.is_zero(oe[2])))
    ctx.require("circumcenter:equidistant-ab", ctx.is_zero(bis(C[0], C[1])))
    ctx.require("circumcenter:equidistant-ac", ctx.is_zero(bis(C[0], C[2])))


def mk_regular(n):
    def case(ctx):
        from geometer import RegularPolygon, Point
        cx, cy, r = ctx.real("cx"), ctx.real("cy"), ctx.real("r")
        ctx.assume(ctx.lt(0, r))
        P = RegularPolygon(Point(mk_array(ctx, [cx, cy, 1])), r, n)
        ctx.require("regular:vertex-count", P.array.shape[0] == n)
        for i in range(n):
            v = E(P.array[i])
            ctx.require(f"regular:vertex[{i}]-finite", ctx.neg(ctx.is_zero(v[2])))
            dx, dy = v[0] - cx * v[2], v[1] - cy * v[2]
            ctx.require(f"regular:vertex[{i}]-at-distance-r", ctx.eq(dx * dx + dy * dy, r * r * v[2] * v[2]))
        c = E(P.center)
        ctx.require("regular:center", R.proportional(ctx, c, [cx, cy, 1]))
        from geometer.exceptions import GeometryException
        try:
            rad = P.radius
            inr = P.inradius
        except GeometryException:
            ctx.outcome("raised")
            ctx.hunt("regular:radius/inradius-defined", False)
            return
        if ctx.symbolic and (getattr(rad, "special", None) or getattr(inr, "special", None)):
            ctx.outcome("special")
            ctx.hunt("regular:radius/inradius-finite", False)
            return
        ctx.require("regular:radius", ctx.all([ctx.le(0, rad), ctx.eq(rad * rad, r * r)]))
        # inradius = r cos(pi/n): cos^2 = 3/4 (n=6), 1/2 (n=4), 1/4 (n=3)
        from fractions import Fraction
        c2 = {3: Fraction(1, 4), 4: Fraction(1, 2), 6: Fraction(3, 4)}[n]
        c2 = c2 if ctx.symbolic else float(c2)
        ctx.require("regular:inradius", ctx.all([ctx.le(0, inr), ctx.eq(inr * inr, r * r * c2)]))
    return case


def case_equality(ctx):
    from geometer import Polygon, Point
    pts = _pts2(ctx, 4, weights=True)
    hs = [h for _, h in pts]
    P = Polygon(*[Point(mk_array(ctx, h)) for h in hs])
    for sh in range(1, 4):
        Q = Polygon(*[Point(mk_array(ctx, hs[(i + sh) % 4])) for i in range(4)])
        ctx.require(f"eq:rotation{sh}", P == Q)
    ctx.require("eq:reversed", P == Polygon(*[Point(mk_array(ctx, h)) for h in hs[::-1]]))
    # a different vertex (not proportional to any vertex of P) -> not equal
    z = vec(ctx, "z", 3)
    ze = E(z)
    ctx.assume(R.nonzero(ctx, ze))
    for h in hs:
        ctx.assume(ctx.neg(R.proportional(ctx, ze, h)))
    Z = Polygon(Point(mk_array(ctx, hs[0])), Point(mk_array(ctx, hs[1])), Point(z), Point(mk_array(ctx, hs[3])))
    ctx.require("eq:different-vertex-not-equal", not (P == Z))


A3_POLYS = [[(0, 0), (2, 0), (2, 1), (0, 1)], [(0, 0), (3, 0), (1, 2)], [(0, 0), (2, 0), (3, 2), (1, 3), (-1, 1)]]
A3_EMBEDS = [((0, 0, 0), (1, 0, 0), (0, 1, 0), (0, 0, 1)), ((1, 2, 3), (1, 0, 1), (0, 1, 1), (1, 1, -1)), ((2, 0, 0), (0, 1, 0), (0, 0, 1), (1, 0, 0)), ((0, 1, 0), (2, 1, 0), (0, 1, 2), (2, -4, -2))]


def mk_area3d_shifted(k, j):
    """single lattice polygon in the plane  o + t*n + span(u, v)  of 3-space with a free real offset t along the normal: the area does not depend on t (and is |u x v| times the planar area)"""
    def case(ctx):
        from geometer import Polygon, Point
        from fractions import Fraction
        poly, (o, u, v, nrm) = A3_POLYS[k], A3_EMBEDS[j]
        t = ctx.real("t")
        V = [[o[i] + x * u[i] + y * v[i] + t * nrm[i] for i in range(3)] + [1] for x, y in poly]
        P = Polygon(*[Point(mk_array(ctx, w)) for w in V])
        A = P.area
        n = len(poly)
        sh = sum(poly[i][0] * poly[(i + 1) % n][1] - poly[(i + 1) % n][0] * poly[i][1] for i in range(n))
        cr = [u[1] * v[2] - u[2] * v[1], u[2] * v[0] - u[0] * v[2], u[0] * v[1] - u[1] * v[0]]
        sq = Fraction(sh * sh * sum(c * c for c in cr), 4)
        ctx.require("area3d:nonnegative", ctx.le(0, A))
        ctx.require("area3d:square-is-|u x v|^2*shoelace^2/4", ctx.eq(A * A, sq if ctx.symbolic else float(sq)))
    return case


def case_cuboid(ctx, with_area=False):
    from geometer import Cuboid, Point
    o = [ctx.real(f"o{i}") for i in range(3)]
    a, b, c = ctx.real("a"), ctx.real("b"), ctx.real("c")
    for x in (a, b, c):
        ctx.assume(ctx.lt(0, x))
    cub = Cuboid(Point(mk_array(ctx, o + [1])), Point(mk_array(ctx, [o[0] + a, o[1], o[2], 1])), Point(mk_array(ctx, [o[0], o[1] + b, o[2], 1])),
                 Point(mk_array(ctx, [o[0], o[1], o[2] + c, 1])))
    ctx.require("cuboid:faces", cub.array.shape[:2] == (6, 4))
    ctx.require("cuboid:vertices", len(cub.vertices) == 8)
    ctx.require("cuboid:edges", len(cub.edges) == 12)
    if not with_area:
        return
    fa = cub.faces.area
    exp = [b * c, a * c, a * b, b * c, a * c, a * b]        # faces yz, xz, xy, yz+x, xz+y, xy+z
    for i in range(6):
        ctx.lemma(f"cuboid:face[{i}]-area", ctx.all([ctx.le(0, fa[i]), ctx.eq(fa[i] * fa[i], exp[i] * exp[i])]))
    A = cub.area
    ctx.require("cuboid:area", ctx.eq(A, 2 * (a * b + b * c + c * a)))


def mk_cuboid_area_lattice(k):
    """cuboid with lattice corner and two lattice edge lengths, third edge length a free positive real: surface area and face areas"""
    CONF = [((0, 0, 0), (None, 2, 3)), ((1, -2, 3), (2, None, 1)), ((-1, 0, 2), (3, 1, None))]

    def case(ctx):
        from geometer import Cuboid, Point
        o, ed = CONF[k]
        a = ctx.real("a")
        ctx.assume(ctx.lt(0, a))
        ea, eb, ec = [a if x is None else x for x in ed]
        cub = Cuboid(Point(ctx.const(list(o) + [1], float)), Point(mk_array(ctx, [o[0] + ea, o[1], o[2], 1])), Point(mk_array(ctx, [o[0], o[1] + eb, o[2], 1])),
                     Point(mk_array(ctx, [o[0], o[1], o[2] + ec, 1])))
        A = cub.area
        ctx.require("cuboid:area", ctx.eq(A, 2 * (ea * eb + eb * ec + ec * ea)))
        fa = cub.faces.area
        ctx.require("cuboid:six-faces", len(fa) == 6)
        tot = fa[0]
        for i in range(1, 6):
            tot = tot + fa[i]
        ctx.require("cuboid:area-is-sum-of-face-areas", ctx.eq(A, tot))
        for i in range(6):
            ctx.require(f"cuboid:face[{i}]-area-nonnegative", ctx.le(0, fa[i]))
    return case


def cases(tier, seed):
    Q, T = ("quick", "thorough"), ("thorough",)
    cs = []

    def add(name, fn, **kw):
        cs.append(Case(name, fn, setup=_setup, **kw))
    for k in (3, 4, 5):
        add(f"area2d_{k}", mk_area2d(k), tiers=Q)
    add("area2d_4_weights", mk_area2d(4, weights=True), tiers=Q, max_paths=2000)
    add("centroid_3", mk_centroid(3), tiers=Q)
    add("centroid_4", mk_centroid(4), tiers=Q)
    add("centroid_5", mk_centroid(5), tiers=T)
    add("volume_triangle2d", case_simplex_volume, tiers=Q)
    add("volume_tetrahedron", case_tetra_volume, tiers=Q)
    add("volume_triangle2d_weights", (lambda ctx: case_simplex_volume(ctx, True)), tiers=Q)
    add("volume_tetrahedron_weights", (lambda ctx: case_tetra_volume(ctx, True)), tiers=Q, max_paths=2000)
    add("volume_triangle3d", case_triangle3d_volume, tiers=Q)
    for k in range(len(A3_POLYS)):
        for j in range(len(A3_EMBEDS)):
            add(f"area3d_poly{k}_plane{j}_free_offset", mk_area3d_shifted(k, j), tiers=Q, max_paths=2000)
    add("midpoint_2d", case_midpoint, tiers=Q, max_paths=2000)
    add("circumcenter_2d", case_circumcenter, tiers=Q, max_paths=2000)
    for n in (3, 4, 6):
        add(f"regular_polygon_{n}", mk_regular(n), tiers=Q, max_paths=3000)
    add("equality", case_equality, tiers=Q, max_paths=4000)
    add("cuboid_structure", case_cuboid, tiers=Q, max_paths=3000)
    for k in range(3):
        add(f"cuboid_area_lattice{k}_free_edge", mk_cuboid_area_lattice(k), tiers=("attempt",), max_paths=3000)
    add("cuboid_area", (lambda ctx: case_cuboid(ctx, True)), tiers=("attempt",), max_paths=3000)
    return cs
