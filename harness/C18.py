"""C18 - polytope intersections return exactly the common points."""
from __future__ import annotations

import numpy as np

from symgeo.driver import Case
from symgeo import refgeo as R
from harness.common import vec, E
from harness.tr import mk_array
from harness.C16 import lattice_polygons

EVIDENCE = {
    "functions": ["shapes.SegmentTensor.intersect", "shapes.PolygonTensor.intersect (2-D via edges, 3-D via supporting plane)", "shapes.Polyhedron.intersect", "shapes.SegmentTensor.contains",
                  "shapes.PolygonTensor.contains", "utils.distinct", "point.meet(_check_dependence=False)", "base.TensorCollection.__getitem__ (boolean masks)"],
    "bounds": "segment x line (2-D): all coordinates free reals (finite end points, positive weights; thorough) and one operand free x the other from a lattice family (quick); "
              "segment x segment (2-D): one segment free reals x one lattice segment; segment x plane (3-D): lattice segment x free plane; polygon x line in 2-D: polygon from the "
              "enumerated lattice family of C16 (3-5 vertices), line free reals; polygon x segment in 2-D: lattice polygon, segment with one lattice and one free real end point; "
              "polygon in 3-D and cube x line: concrete polytope, free real line through two points; polygon in 3-D x segment along the normal through a free point of the plane, "
              "one end at a concrete height, the other at a free real height with a free non-zero weight of either sign (2 embeddings)",
    "outside": "two fully symbolic segments, free segment x free plane, polygon x fully free segment (built, tier 'attempt', undecided); two symbolic polygons; polyhedra other than the cube; collections of polytopes; rounding; overlapping collinear operands are only required to yield no spurious points",
    "assumptions": ["ProjectiveTensor.__eq__/is_multiple: lemma proved in C20"],
}


def _setup():
    from symgeo.lemmas import use_is_multiple_lemma
    use_is_multiple_lemma(True)


def _finite_point(ctx, name, dim):
    v = vec(ctx, name, dim + 1)
    ctx.assume(ctx.gt(E(v)[-1], 0))
    return v


def _on_closed_segment(ctx, a, b, r):
    """r (any non-zero representative) lies on the closed segment [a, b] (finite a, b with positive weights)"""
    rows = [a, b, r]
    col = R.rank_deficient(ctx, rows)
    # parameter test with weights: r = la*a + mu*b with la, mu of equal sign (>= 0 after normalising) <=> for every coordinate pair the Cramer numerators have product >= 0
    n = len(a)
    conds = [col]
    for i in range(n):
        for j in range(i + 1, n):
            w = a[i] * b[j] - a[j] * b[i]
            la = r[i] * b[j] - r[j] * b[i]
            mu = a[i] * r[j] - a[j] * r[i]
            # la/w and mu/w are the coefficients; same sign or zero  <=>  la*mu >= 0 (w^2 > 0 when w != 0; if w == 0 then la*mu-type terms are not informative, but then they vanish for collinear r)
            conds.append(ctx.le(0, la * mu))
    return ctx.all(conds)


def _returned(ctx, res):
    out = []
    for r in res:
        out.append(E(r))
    return out


SEGS = [([0, 0, 1], [2, 1, 1]), ([1, -1, 1], [1, 2, 1]), ([-2, 0, 2], [0, 3, 1]), ([0, 0, 1], [-4, -2, -2]), ([3, -3, -3], [1, 2, 1])]


def _pos(v):
    """same point, representative with positive weight (the oracle is about the Cartesian point)"""
    return [-x for x in v] if v[-1] < 0 else list(v)


def mk_segment_line(concrete=None, kk=0):
    """concrete: None (both symbolic), 'segment' (lattice segment, free line), 'line' (free segment, lattice line)"""
    def case(ctx):
        from geometer import Segment, Point, Line
        if concrete == "segment":
            a, b = ctx.const(SEGS[kk][0], float), ctx.const(SEGS[kk][1], float)
        else:
            a, b = _finite_point(ctx, "a", 2), _finite_point(ctx, "b", 2)
        ae, be = E(a), E(b)
        ctx.assume(ctx.neg(R.rank_deficient(ctx, [ae, be])))
        seg = Segment(Point(a), Point(b))
        if concrete == "segment":
            ae, be = _pos(SEGS[kk][0]), _pos(SEGS[kk][1])
        l = ctx.const([[1, -1, 0], [0, 1, -1], [2, 1, -3]][kk], float) if concrete == "line" else vec(ctx, "l", 3)
        le = E(l)
        ctx.assume(R.nonzero(ctx, le))
        res = seg.intersect(Line(l))
        pts = _returned(ctx, res)
        ctx.outcome(f"n={len(pts)}")
        sa, sb = R.dot(le, ae), R.dot(le, be)
        crossing = ctx.all([ctx.le(sa * sb, 0), ctx.neg(ctx.all([ctx.is_zero(sa), ctx.is_zero(sb)]))])
        ctx.require("segment-line:at-most-one", len(pts) <= 1)
        ctx.require("segment-line:nonempty-iff-crossing", ctx.iff(len(pts) >= 1, crossing))
        for k, r in enumerate(pts):
            ctx.require(f"segment-line:returned[{k}]-on-line", ctx.is_zero(R.dot(le, r)))
            ctx.require(f"segment-line:returned[{k}]-on-segment", _on_closed_segment(ctx, ae, be, r))
            ctx.require(f"segment-line:returned[{k}]-nonzero", R.nonzero(ctx, r))
    return case


def mk_segment_segment(concrete=False, k=0):
    def case(ctx):
        return _segment_segment(ctx, concrete, k)
    return case


def _segment_segment(ctx, concrete, kk):
    from geometer import Segment, Point
    a, b = _finite_point(ctx, "a", 2), _finite_point(ctx, "b", 2)
    if concrete:
        c, d = ctx.const(SEGS[kk][0], float), ctx.const(SEGS[kk][1], float)
    else:
        c, d = _finite_point(ctx, "c", 2), _finite_point(ctx, "d", 2)
    ae, be, ce, de = E(a), E(b), E(c), E(d)
    ctx.assume(ctx.neg(R.rank_deficient(ctx, [ae, be])))
    ctx.assume(ctx.neg(R.rank_deficient(ctx, [ce, de])))
    s1, s2 = Segment(Point(a), Point(b)), Segment(Point(c), Point(d))
    if concrete:
        ce, de = _pos(SEGS[kk][0]), _pos(SEGS[kk][1])
    res = s1.intersect(s2)
    pts = _returned(ctx, res)
    ctx.outcome(f"n={len(pts)}")
    l1, l2 = R.cross3(ae, be), R.cross3(ce, de)
    same_line = R.proportional(ctx, l1, l2)
    c1 = ctx.le(R.dot(l2, ae) * R.dot(l2, be), 0)
    c2 = ctx.le(R.dot(l1, ce) * R.dot(l1, de), 0)
    expected = ctx.all([c1, c2, ctx.neg(same_line)])
    ctx.require("segment-segment:at-most-one", len(pts) <= 1)
    ctx.require("segment-segment:nonempty-iff-crossing", ctx.iff(len(pts) >= 1, expected))
    for k, r in enumerate(pts):
        ctx.require(f"segment-segment:returned[{k}]-on-first", _on_closed_segment(ctx, ae, be, r))
        ctx.require(f"segment-segment:returned[{k}]-on-second", _on_closed_segment(ctx, ce, de, r))


def mk_segment_plane(concrete=None):
    def case(ctx):
        return _segment_plane(ctx, concrete)
    return case


def _segment_plane(ctx, concrete):
    from geometer import Segment, Point, Plane
    if concrete == "segment":
        a, b = ctx.const([0, 1, 2, 1], float), ctx.const([2, -1, 0, 1], float)
    else:
        a, b = _finite_point(ctx, "a", 3), _finite_point(ctx, "b", 3)
    ae, be = E(a), E(b)
    ctx.assume(ctx.neg(R.rank_deficient(ctx, [ae, be])))
    seg = Segment(Point(a), Point(b))
    e = ctx.const([1, 2, -1, -1], float) if concrete == "plane" else vec(ctx, "e", 4)
    ee = E(e)
    ctx.assume(R.nonzero(ctx, ee))
    res = seg.intersect(Plane(e))
    pts = _returned(ctx, res)
    ctx.outcome(f"n={len(pts)}")
    sa, sb = R.dot(ee, ae), R.dot(ee, be)
    crossing = ctx.all([ctx.le(sa * sb, 0), ctx.neg(ctx.all([ctx.is_zero(sa), ctx.is_zero(sb)]))])
    ctx.require("segment-plane:at-most-one", len(pts) <= 1)
    ctx.require("segment-plane:nonempty-iff-crossing", ctx.iff(len(pts) >= 1, crossing))
    for k, r in enumerate(pts):
        ctx.require(f"segment-plane:returned[{k}]-in-plane", ctx.is_zero(R.dot(ee, r)))
        ctx.require(f"segment-plane:returned[{k}]-on-segment", _on_closed_segment(ctx, ae, be, r))


def mk_polygon_line(poly, with_segment=False, anchor=None):
    def case(ctx):
        from geometer import Polygon, Point, Line, Segment
        P = Polygon(*[Point(float(x), float(y)) for x, y in poly])
        n = len(poly)
        verts = [[float(x), float(y), 1.0] for x, y in poly]
        if with_segment:
            if anchor is not None:
                c = ctx.const([float(x) for x in anchor], float)
            else:
                c = _finite_point(ctx, "c", 2)
            d = _finite_point(ctx, "d", 2)
            ce, de = E(c), E(d)
            ctx.assume(ctx.neg(R.rank_deficient(ctx, [ce, de])))
            le = R.cross3(ce, de)
            other = Segment(Point(c), Point(d))
        else:
            l = vec(ctx, "l", 3)
            le = E(l)
            ctx.assume(R.nonzero(ctx, le))
            other = Line(l)
        res = P.intersect(other)
        pts = _returned(ctx, res)
        ctx.outcome(f"n={len(pts)}")
        tag = "polygon-segment" if with_segment else "polygon-line"
        edges = [(verts[i], verts[(i + 1) % n]) for i in range(n)]
        for k, r in enumerate(pts):
            ctx.require(f"{tag}:returned[{k}]-on-line", ctx.is_zero(R.dot(le, r)))
            ctx.require(f"{tag}:returned[{k}]-on-boundary", ctx.any([_on_closed_segment(ctx, a, b, r) for a, b in edges]))
            if with_segment:
                ctx.require(f"{tag}:returned[{k}]-on-segment", _on_closed_segment(ctx, ce, de, r))
            for j in range(k):
                ctx.require(f"{tag}:returned[{j}]!=returned[{k}]", ctx.neg(R.proportional(ctx, pts[j], r)))
        # completeness: every edge crossed transversally contributes its crossing point
        for i, (a, b) in enumerate(edges):
            sa, sb = R.dot(le, a), R.dot(le, b)
            crossed = ctx.all([ctx.le(sa * sb, 0), ctx.neg(ctx.all([ctx.is_zero(sa), ctx.is_zero(sb)]))])
            x = [sb * u - sa * v for u, v in zip(a, b)]
            if with_segment:
                crossed = ctx.all([crossed, _on_closed_segment(ctx, ce, de, x)])
            found = ctx.any([R.proportional(ctx, x, r) for r in pts]) if pts else False
            ctx.require(f"{tag}:edge[{i}]-crossing-returned", ctx.implies(crossed, found))
    return case


def mk_polygon3d_line(poly, emb, moved=None):
    def case(ctx):
        from geometer import Polygon, Point, Line
        o, u, v, nrm = emb
        V3 = [[float(o[i] + x * u[i] + y * v[i]) for i in range(3)] + [1.0] for x, y in poly]
        P = Polygon(*[Point(*w[:3]) for w in V3])
        if moved is not None:
            # the polygon under test is the image of P under a translation (its supporting plane moves with it)
            from geometer import translation
            P = translation(*[float(x) for x in moved]) * P
            o = tuple(o[i] + moved[i] for i in range(3))
        # line through a free point of the polygon's plane (parameters s, t) and a free point off it
        s, t = ctx.real("s"), ctx.real("t")
        inpl = [o[i] + s * u[i] + t * v[i] for i in range(3)] + [1]
        q = vec(ctx, "q", 4)
        qe = E(q)
        plane = [nrm[0], nrm[1], nrm[2], -(nrm[0] * o[0] + nrm[1] * o[1] + nrm[2] * o[2])]
        ctx.assume(ctx.neg(ctx.is_zero(R.dot(plane, qe))))
        L = Line(Point(mk_array(ctx, inpl)), Point(q))
        res = P.intersect(L)
        pts = _returned(ctx, res)
        ctx.outcome(f"n={len(pts)}")
        from harness.C16 import oracle_polygon
        inside = oracle_polygon(ctx, poly, [s, t, 1])
        ctx.require("polygon3d-line:at-most-one", len(pts) <= 1)
        ctx.require("polygon3d-line:hit-iff-pierced-inside", ctx.iff(len(pts) == 1, inside))
        for r in pts:
            ctx.require("polygon3d-line:returned-is-piercing-point", R.proportional(ctx, r, inpl))
    return case


def mk_polygon3d_segment(poly, emb, a_height=1, polyhedron=False, fixed_w=None):
    """lattice polygon in 3-space x segment along the normal through a free point X of the polygon's plane: from X + a n (a concrete) to X + b n with b free
    and a free non-zero weight of either sign on that end point: the segment meets the polygon iff X is in the closed polygon and b <= 0 (for a > 0)"""
    def case(ctx):
        from geometer import Polygon, Point, Segment
        o, u, v, nrm = emb
        V3 = [[float(o[i] + x * u[i] + y * v[i]) for i in range(3)] + [1.0] for x, y in poly]
        P = Polygon(*[Point(*w[:3]) for w in V3])
        s, t, b = ctx.real("s"), ctx.real("t"), ctx.real("b")
        w = ctx.real("w") if fixed_w is None else fixed_w
        if fixed_w is None:
            ctx.assume(ctx.neg(ctx.is_zero(w)))
        ctx.assume(ctx.neg(ctx.is_zero(b - a_height)))
        X = [o[i] + s * u[i] + t * v[i] for i in range(3)] + [1]
        A = [X[i] + a_height * nrm[i] for i in range(3)] + [1]
        B = [w * (X[i] + b * nrm[i]) for i in range(3)] + [w]
        S = Segment(Point(mk_array(ctx, A)), Point(mk_array(ctx, B)))
        res = P.intersect(S)
        pts = _returned(ctx, res)
        ctx.outcome(f"n={len(pts)}")
        from harness.C16 import oracle_polygon
        inside = oracle_polygon(ctx, poly, [s, t, 1])
        crossing = ctx.le(a_height * b, 0)
        ctx.require("polygon3d-segment:at-most-one", len(pts) <= 1)
        ctx.require("polygon3d-segment:hit-iff-inside-and-crossing", ctx.iff(len(pts) == 1, ctx.all([inside, crossing])))
        for r in pts:
            ctx.require("polygon3d-segment:returned-is-piercing-point", R.proportional(ctx, r, X))
        res2 = S.intersect(P)
        ctx.require("polygon3d-segment:same-result-from-the-segment-side", len(res2) == len(pts))
    return case


def case_cube_line(ctx):
    from geometer import Cuboid, Point, Line
    cube = Cuboid(Point(0, 0, 0), Point(1, 0, 0), Point(0, 1, 0), Point(0, 0, 1))
    # line through a free point of the bottom face plane z = 0 and a free point of the top plane z = 1
    from fractions import Fraction
    u, v = ctx.real("u"), ctx.real("v")
    s, t = (Fraction(1, 2), Fraction(1, 4)) if ctx.symbolic else (0.5, 0.25)   # concrete interior point of the bottom face; the top point is free
    p0 = [s, t, 0, 1]
    p1 = [u, v, 1, 1]
    L = Line(Point(mk_array(ctx, p0)), Point(mk_array(ctx, p1)))
    res = cube.intersect(L)
    pts = _returned(ctx, res)
    ctx.outcome(f"n={len(pts)}")
    def in_unit(x):
        return ctx.all([ctx.le(0, x), ctx.le(x, 1)])
    for k, r in enumerate(pts):
        ctx.require(f"cube-line:returned[{k}]-on-line", R.rank_deficient(ctx, [p0, p1, r]))
        ctx.require(f"cube-line:returned[{k}]-finite", ctx.neg(ctx.is_zero(r[3])))
        # on the closed cube: 0 <= x,y,z <= w (sign-normalised)
        w = r[3]
        ctx.require(f"cube-line:returned[{k}]-in-cube", ctx.all([ctx.le(0, r[i] * w) for i in range(3)] + [ctx.le(r[i] * w, w * w) for i in range(3)]))
        for j in range(k):
            ctx.require(f"cube-line:returned[{j}]!=returned[{k}]", ctx.neg(R.proportional(ctx, pts[j], r)))
    both_inside = ctx.all([in_unit(s), in_unit(t), in_unit(u), in_unit(v)])
    # strictly inside bottom and top faces: exactly the two face points
    strict = ctx.all([ctx.lt(0, x) for x in (s, t, u, v)] + [ctx.lt(x, 1) for x in (s, t, u, v)])
    ctx.require("cube-line:through-both-faces-gives-two-points", ctx.implies(strict, len(pts) == 2))
    miss = ctx.all([ctx.lt(1, s), ctx.lt(1, u)])
    ctx.require("cube-line:miss-gives-none", ctx.implies(miss, len(pts) == 0))


def cases(tier, seed):
    Q, T = ("quick", "thorough"), ("thorough",)
    cs = []

    def add(name, fn, **kw):
        cs.append(Case(name, fn, setup=_setup, **kw))
    add("segment_line_2d", mk_segment_line(), tiers=T)
    for k in range(5):
        add(f"segment{k}_x_free_line", mk_segment_line("segment", k), tiers=Q)
        if k < 3:
            add(f"free_segment_x_line{k}", mk_segment_line("line", k), tiers=Q)
        add(f"free_segment_x_segment{k}", mk_segment_segment(True, k), tiers=Q)
    add("segment_segment_2d", mk_segment_segment(False), tiers=T)
    add("segment_x_free_plane", mk_segment_plane("segment"), tiers=Q)
    add("free_segment_x_plane", mk_segment_plane("plane"), tiers=T)
    add("segment_plane_3d", mk_segment_plane(None), tiers=T)
    polys = lattice_polygons(seed, 10 if tier == "quick" else 40, sizes=(3, 4, 4, 5), B=2)
    for i, poly in enumerate(polys):
        add(f"polygon_line_{i:02d}", mk_polygon_line(poly), tiers=Q, max_paths=2000)
    for i, poly in enumerate(polys[:2] if tier == "quick" else polys[:20]):
        add(f"polygon_segment_{i:02d}", mk_polygon_line(poly, with_segment=True), tiers=T, max_paths=3000)
    anchors = [(0, 0, 1), (3, 1, 1), (-1, 2, 2)]
    for i, poly in enumerate(polys[:8]):
        for j, an in enumerate(anchors):
            add(f"polygon_halfsegment_{i:02d}_a{j}", mk_polygon_line(poly, with_segment=True, anchor=an), tiers=Q if i == 0 else T, max_paths=3000)
    embeds = [((0, 0, 1), (1, 0, 0), (0, 1, 0), (0, 0, 1)), ((1, 2, 3), (1, 0, 1), (0, 1, 1), (1, 1, -1)), ((2, 0, 0), (0, 1, 0), (0, 0, 1), (1, 0, 0))]
    for j, emb in enumerate(embeds):
        for i, poly in enumerate(polys[:2]):
            add(f"polygon3d_line_e{j}_{i}", mk_polygon3d_line(poly, emb), tiers=Q, max_paths=1500)
    add("polygon3d_line_translated", mk_polygon3d_line(polys[0], embeds[1], moved=(1, -2, 3)), tiers=Q, max_paths=1500)
    add("polygon3d_line_lifted", mk_polygon3d_line(polys[0], embeds[0], moved=(0, 0, 2)), tiers=Q, max_paths=1500)
    for j, emb in enumerate(embeds):
        add(f"polygon3d_segment_e{j}", mk_polygon3d_segment(polys[0], emb, a_height=1 if j != 1 else -2), tiers=(Q, ("attempt",), T)[j], max_paths=3000)
    add("polygon3d_segment_e1_negw", mk_polygon3d_segment(polys[0], embeds[1], a_height=-2, fixed_w=-1), tiers=T, max_paths=3000)
    add("cube_line", case_cube_line, tiers=Q, max_paths=4000)
    return cs
