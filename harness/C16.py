"""C16 - segment / polygon / triangle membership is the closed Cartesian point set."""
from __future__ import annotations

import itertools
import random

import numpy as np

from symgeo.driver import Case
from symgeo import refgeo as R
from harness.common import vec, E
from harness.tr import mk_array

EVIDENCE = {
    "functions": ["shapes.SegmentTensor.contains", "shapes.PolygonTensor.contains (2-D ray casting; 3-D projection branch)", "shapes.Triangle.contains", "shapes.PolygonTensor.edges/_edges",
                  "shapes.SegmentCollection.expand_dims", "point.meet (_check_dependence=False)", "PointTensor._matrix_transform", "utils.math.det/matmul"],
    "bounds": "segments: end points free reals (arbitrary non-zero homogeneous weights, one end point at infinity for rays), query point parametrised on the supporting line "
              "(q = s((1-x)A + xB), x and s free) or off it; 2-D and 3-D.  polygons: vertices range over an enumerated family of simple lattice polygons (3-5 vertices on [-2,2]^2, "
              "convex and non-convex, every cyclic start and both directions; seeded subset in quick), the query point is a free real homogeneous vector (so points on edges, at "
              "vertices, on edge extensions, level with a vertex and at infinity are all inside each query); 3-D: lattice polygons embedded by concrete affine maps with the point free.  "
              "triangles (2-D): all 8 coordinates free reals.",
    "outside": "(inside since round 3: triangles whose vertices carry free weights of either sign; translated 3-D polygons) polygons with symbolic vertices (measured: undecided by z3/cvc5, DESIGN 3), polygons off the enumerated family (no extrapolation), > 5 vertices, self-intersecting cycles, rounding",
    "assumptions": ["ProjectiveTensor.__eq__/is_multiple: lemma proved in C20"],
}


def _setup():
    from symgeo.lemmas import use_is_multiple_lemma
    use_is_multiple_lemma(True)


# ------------------------------------------------------------------ segments

def mk_segment(dim, mode):
    """mode: 'on' (point on the supporting line, parameter x), 'off' (point off the line), 'ray' (b at infinity), 'inf' (query point at infinity)"""
    def case(ctx):
        from geometer import Segment, Point
        n = dim + 1
        wa, wb = ctx.real("wa"), ctx.real("wb")
        ctx.assume(ctx.neg(ctx.is_zero(wa)))
        A = [ctx.real(f"A{i}") for i in range(dim)]
        if mode == "ray":
            D = [ctx.real(f"D{i}") for i in range(dim)]       # direction
            ctx.assume(R.nonzero(ctx, D))
            a = [wa * c for c in A] + [wa]
            # the end point at infinity is given by its direction vector D as stored (a ray towards -D is a different ray)
            b = list(D) + [0]
        else:
            ctx.assume(ctx.neg(ctx.is_zero(wb)))
            B = [ctx.real(f"B{i}") for i in range(dim)]
            ctx.assume(ctx.neg(ctx.all([ctx.is_zero(x - y) for x, y in zip(A, B)])))
            a = [wa * c for c in A] + [wa]
            b = [wb * c for c in B] + [wb]
        seg = Segment(Point(mk_array(ctx, a)), Point(mk_array(ctx, b)))
        s = ctx.real("s")
        ctx.assume(ctx.neg(ctx.is_zero(s)))
        x = ctx.real("x")
        if mode == "on":
            q = [s * ((1 - x) * p + x * r) for p, r in zip(A, B)] + [s]
            r = seg.contains(Point(mk_array(ctx, q)))
            ctx.require("segment:on-line:iff-0<=x<=1", ctx.iff(ctx.truth(r), ctx.all([ctx.le(0, x), ctx.le(x, 1)])))
        elif mode == "ray":
            q = [s * (p + x * d) for p, d in zip(A, D)] + [s]
            r = seg.contains(Point(mk_array(ctx, q)))
            ctx.require("ray:iff-x>=0", ctx.iff(ctx.truth(r), ctx.le(0, x)))
        elif mode == "inf":
            q = [s * (r_ - p) for p, r_ in zip(A, B)] + [0]
            r = seg.contains(Point(mk_array(ctx, q)))
            ctx.require("segment:point-at-infinity-not-contained", ctx.neg(ctx.truth(r)))
        else:
            qv = vec(ctx, "q", n)
            qe = E(qv)
            ctx.assume(R.nonzero(ctx, qe))
            collinear = R.rank_deficient(ctx, [a, b, qe])
            ctx.assume(ctx.neg(collinear))
            r = seg.contains(Point(qv))
            ctx.require("segment:off-line-not-contained", ctx.neg(ctx.truth(r)))
    return case


# ------------------------------------------------------------------ polygons: enumerated lattice family x symbolic point

def _orient(p, q, r):
    return (q[0] - p[0]) * (r[1] - p[1]) - (q[1] - p[1]) * (r[0] - p[0])


def _seg_intersect_proper(a, b, c, d):
    def on(p, q, r):
        return min(p[0], q[0]) <= r[0] <= max(p[0], q[0]) and min(p[1], q[1]) <= r[1] <= max(p[1], q[1])
    o1, o2, o3, o4 = _orient(a, b, c), _orient(a, b, d), _orient(c, d, a), _orient(c, d, b)
    if o1 * o2 < 0 and o3 * o4 < 0:
        return True
    if o1 == 0 and on(a, b, c):
        return True
    if o2 == 0 and on(a, b, d):
        return True
    if o3 == 0 and on(c, d, a):
        return True
    if o4 == 0 and on(c, d, b):
        return True
    return False


def is_simple(poly):
    n = len(poly)
    if len(set(poly)) < n:
        return False
    for i in range(n):
        if _orient(poly[i - 1], poly[i], poly[(i + 1) % n]) == 0 and False:
            return False
    area2 = sum(poly[i][0] * poly[(i + 1) % n][1] - poly[(i + 1) % n][0] * poly[i][1] for i in range(n))
    if area2 == 0:
        return False
    for i in range(n):
        for j in range(i + 1, n):
            if j == i or (j + 1) % n == i or (i + 1) % n == j:
                # adjacent edges: only share the common vertex
                a, b, c = poly[i], poly[(i + 1) % n], poly[(j + 1) % n] if (i + 1) % n == j else poly[j]
                if (i + 1) % n == j:
                    p, q, r = poly[i], poly[j], poly[(j + 1) % n]
                else:
                    p, q, r = poly[j], poly[i], poly[(i + 1) % n]
                # spike: next edge folds back over the previous one
                if _orient(p, q, r) == 0 and ((p[0] - q[0]) * (r[0] - q[0]) + (p[1] - q[1]) * (r[1] - q[1])) > 0:
                    return False
                continue
            if _seg_intersect_proper(poly[i], poly[(i + 1) % n], poly[j], poly[(j + 1) % n]):
                return False
    return True


def lattice_polygons(seed, count, sizes=(3, 4, 5), B=2):
    rnd = random.Random(seed)
    pts = [(x, y) for x in range(-B, B + 1) for y in range(-B, B + 1)]
    out = []
    seen = set()
    hand = [[(0, 0), (2, 0), (2, 2), (0, 2)], [(0, 0), (2, 0), (0, 2)], [(0, 0), (2, 0), (1, 1), (2, 2), (0, 2)], [(-1, 0), (0, -1), (1, 0), (0, 1)],
            [(0, 0), (2, 0), (2, 1), (1, 1), (1, 2)][:5], [(-2, -2), (2, -2), (0, 0), (2, 2), (-2, 2)], [(0, 0), (1, 0), (2, 0), (2, 2)], [(-2, 0), (0, -1), (2, 0), (0, 2)]]
    for h in hand:
        if is_simple(h):
            out.append(h)
            seen.add(tuple(h))
    tries = 0
    while len(out) < count and tries < 200000:
        tries += 1
        k = rnd.choice(sizes)
        poly = rnd.sample(pts, k)
        if not is_simple(poly):
            continue
        # random cyclic start and direction are part of the family
        if tuple(poly) in seen:
            continue
        seen.add(tuple(poly))
        out.append(poly)
    return out


def oracle_polygon(ctx, poly, p):
    """closed region of the simple polygon `poly` (lattice points) for the homogeneous point p = (p0, p1, w), w != 0 decided by the caller
    (sign of w given): on an edge, or crossing number odd (half-open rule).  All conditions are polynomial in p."""
    p0, p1, w = p
    n = len(poly)
    on_edge = []
    crossings = []
    for i in range(n):
        (x1, y1), (x2, y2) = poly[i], poly[(i + 1) % n]
        # collinear with the edge: (x2-x1)(Y-y1) - (y2-y1)(X-x1) = 0 with X = p0/w, Y = p1/w -> multiply by w
        col = (x2 - x1) * (p1 - y1 * w) - (y2 - y1) * (p0 - x1 * w)
        # within the edge's bounding parameter: dot product test 0 <= (P-A).(B-A) <= |B-A|^2, multiplied by w (sign handled by caller via w > 0 normalisation)
        dot = (p0 - x1 * w) * (x2 - x1) + (p1 - y1 * w) * (y2 - y1)
        L2 = (x2 - x1) ** 2 + (y2 - y1) ** 2
        on_edge.append(ctx.all([ctx.is_zero(col), ctx.le(0, dot), ctx.le(dot, L2 * w)]))
        if y1 == y2:
            continue
        # half-open crossing of the ray to the right: (y1 <= Y) != (y2 <= Y) and X < x-intersection
        a = ctx.le(y1 * w, p1)
        b = ctx.le(y2 * w, p1)
        strad = ctx.neg(ctx.iff(a, b))
        # X < x1 + (Y - y1)(x2-x1)/(y2-y1)  <=>  (p0 - x1 w)(y2-y1) < (p1 - y1 w)(x2-x1)   if y2 > y1 (w > 0), reversed otherwise
        lhs = (p0 - x1 * w) * (y2 - y1)
        rhs = (p1 - y1 * w) * (x2 - x1)
        right = ctx.lt(lhs, rhs) if y2 > y1 else ctx.lt(rhs, lhs)
        crossings.append(ctx.all([strad, right]))
    if ctx.symbolic:
        from symgeo.alg import FALSE
        par = FALSE
        for c in crossings:
            par = par ^ c
    else:
        par = sum(1 for c in crossings if c) % 2 == 1
    return ctx.any(on_edge + [par])


def mk_polygons(polys, dim=2, embed=None, moved=None):
    def case(ctx):
        from geometer import Polygon, Point
        p = vec(ctx, "p", 3)
        pe = E(p)
        ctx.assume(R.nonzero(ctx, pe))
        winf = ctx.fork(ctx.is_zero(pe[2]))
        if not winf:
            # normalise the oracle to w > 0 by flipping the representative (the oracle is about the Cartesian point)
            pos = ctx.fork(ctx.gt(pe[2], 0))
            po = pe if pos else [-x for x in pe]
        for k, poly in enumerate(polys):
            if embed is None:
                P = Polygon(*[Point(float(x), float(y)) for x, y in poly])
                q = Point(p)
            else:
                # affine embedding into 3-space: X = o + x u + y v  (concrete o, u, v); the query point is mapped the same way plus an offset t along the normal
                o, u, v, nrm = embed
                P = Polygon(*[Point(*[float(o[i] + x * u[i] + y * v[i]) for i in range(3)]) for x, y in poly])
                if moved is not None:
                    # the polygon asked is the image of P under a translation: its supporting plane has to move with it
                    from geometer import translation
                    P = translation(*[float(x) for x in moved]) * P
                    o = tuple(o[i] + moved[i] for i in range(3))
                t = ctx.real("t")
                q3 = [pe[0] * u[i] + pe[1] * v[i] + pe[2] * o[i] + t * nrm[i] for i in range(3)] + [pe[2]]
                q = Point(mk_array(ctx, q3))
            got = ctx.truth(P.contains(q))
            tag = f"polygon[{k}]{poly}"
            if winf:
                ctx.require(f"{tag}:point-at-infinity-outside", ctx.neg(got))
                continue
            exp = oracle_polygon(ctx, poly, po)
            if embed is not None:
                exp = ctx.all([exp, ctx.is_zero(t)])
            ctx.require(f"{tag}:contains-iff-closed-region", ctx.iff(got, exp))
    return case


# ------------------------------------------------------------------ triangles, fully symbolic

def case_triangle(ctx):
    from geometer import Triangle, Point
    a, b, c, p = (vec(ctx, k, 3) for k in "abcp")
    for v in (a, b, c, p):
        ctx.assume(ctx.gt(E(v)[2], 0))      # finite points, positive representatives (scale independence is C03's business)
    ctx.assume(ctx.neg(ctx.is_zero(R.det([E(a), E(b), E(c)]))))
    T = Triangle(Point(a), Point(b), Point(c))
    got = ctx.truth(T.contains(Point(p)))
    d1 = R.det([E(p), E(b), E(c)])
    d2 = R.det([E(a), E(p), E(c)])
    d3 = R.det([E(a), E(b), E(p)])
    exp = ctx.any([ctx.all([ctx.le(0, d1), ctx.le(0, d2), ctx.le(0, d3)]), ctx.all([ctx.le(d1, 0), ctx.le(d2, 0), ctx.le(d3, 0)])])
    ctx.require("triangle:contains-iff-closed-triangle", ctx.iff(got, exp))


def case_triangle_signed_weights(ctx):
    """the same with every vertex given by an arbitrary non-zero multiple (either sign) of (x, y, 1): mixed-sign representatives arise from meet()"""
    from geometer import Triangle, Point
    V = [[ctx.real(f"{k}x"), ctx.real(f"{k}y"), 1] for k in "abc"]
    W = [ctx.real(f"w{k}") for k in "abc"]
    for w in W:
        ctx.assume(ctx.neg(ctx.is_zero(w)))
    ctx.assume(ctx.neg(ctx.is_zero(R.det(V))))
    p = [ctx.real("px"), ctx.real("py"), 1]
    T = Triangle(*[Point(mk_array(ctx, [w * x for x in v])) for v, w in zip(V, W)])
    got = ctx.truth(T.contains(Point(mk_array(ctx, p))))
    a, b, c = V
    d1, d2, d3 = R.det([p, b, c]), R.det([a, p, c]), R.det([a, b, p])
    exp = ctx.any([ctx.all([ctx.le(0, d1), ctx.le(0, d2), ctx.le(0, d3)]), ctx.all([ctx.le(d1, 0), ctx.le(d2, 0), ctx.le(d3, 0)])])
    ctx.require("triangle[signed weights]:contains-iff-closed-triangle", ctx.iff(got, exp))


def case_triangle3d(ctx):
    from geometer import Triangle, Point
    T = Triangle(Point(0, 0, 1), Point(2, 0, 1), Point(0, 2, 1))
    x, y = ctx.real("x"), ctx.real("y")
    got = ctx.truth(T.contains(Point(mk_array(ctx, [x, y, 1, 1]))))
    exp = ctx.all([ctx.le(0, x), ctx.le(0, y), ctx.le(x + y, 2)])
    ctx.require("triangle3d:contains-iff-closed-triangle", ctx.iff(got, exp))


def case_order_independent(polys):
    """answer does not depend on the start of the vertex cycle or its direction (relational, library vs library)"""
    def case(ctx):
        from geometer import Polygon, Point
        p = vec(ctx, "p", 3)
        ctx.assume(R.nonzero(ctx, E(p)))
        q = Point(p)
        for k, poly in enumerate(polys):
            base = ctx.truth(Polygon(*[Point(float(x), float(y)) for x, y in poly]).contains(q))
            for sh in range(1, len(poly)):
                rot = poly[sh:] + poly[:sh]
                ctx.require(f"polygon[{k}]:rotation{sh}", ctx.iff(base, ctx.truth(Polygon(*[Point(float(x), float(y)) for x, y in rot]).contains(q))))
            rev = poly[::-1]
            ctx.require(f"polygon[{k}]:reversed", ctx.iff(base, ctx.truth(Polygon(*[Point(float(x), float(y)) for x, y in rev]).contains(q))))
    return case


def cases(tier, seed):
    Q, T = ("quick", "thorough"), ("thorough",)
    cs = []

    def add(name, fn, **kw):
        cs.append(Case(name, fn, setup=_setup, **kw))
    for dim in (2, 3):
        for mode in ("on", "off", "ray", "inf"):
            add(f"segment_{mode}_{dim}d", mk_segment(dim, mode), tiers=Q)
    add("triangle_2d", case_triangle, tiers=Q)
    add("triangle_2d_signed_weights", case_triangle_signed_weights, tiers=Q, max_paths=3000)
    add("triangle_3d", case_triangle3d, tiers=Q)
    npoly = 48 if tier == "quick" else 200
    polys = lattice_polygons(seed, npoly, sizes=(3, 4, 4, 5), B=2)
    per = 4
    for i in range(0, len(polys), per):
        add(f"polygons_{i:03d}", mk_polygons(polys[i:i + per]), tiers=Q, max_paths=400)
    add("polygons_order", case_order_independent(polys[:3]), tiers=Q)
    embeds = [((0, 0, 1), (1, 0, 0), (0, 1, 0), (0, 0, 1)), ((1, 2, 3), (1, 0, 1), (0, 1, 1), (1, 1, -1)), ((0, 0, 0), (0, 1, 0), (0, 0, 1), (1, 0, 0)),
              ((2, -1, 0), (1, 1, 0), (0, 1, 2), (2, -2, 1))]
    # 3-D polygons take their supporting plane from the first three vertices: lattice polygons starting with three collinear
    # vertices cannot be constructed in 3-space (LinearDependenceError from the constructor) and are skipped here
    ok3 = [p for p in polys if _orient(p[0], p[1], p[2]) != 0]
    for j, emb in enumerate(embeds):
        add(f"polygons3d_embed{j}", mk_polygons(ok3[:3] if tier == "quick" else ok3[:12], dim=3, embed=emb), tiers=Q, max_paths=600)
    add("polygons3d_embed0_translated", mk_polygons(ok3[:2], dim=3, embed=embeds[0], moved=(0, 0, 2)), tiers=Q, max_paths=600)
    add("polygons3d_embed1_translated", mk_polygons(ok3[:2], dim=3, embed=embeds[1], moved=(1, -2, 3)), tiers=Q, max_paths=600)
    return cs
