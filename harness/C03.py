"""C03 - results depend on the projective object, not on its homogeneous representative."""
from __future__ import annotations

import numpy as np

from symgeo.driver import Case
from symgeo import refgeo as R
from harness.common import vec, E, line3_from_points
from harness.tr import mk_array

EVIDENCE = {
    "functions": ["ProjectiveTensor.__eq__ / utils.math.is_multiple (real implementation)", "SubspaceTensor.contains/is_parallel", "point.join/meet", "operators.crossratio/dist/is_collinear/is_perpendicular",
                  "TransformationTensor.apply/__mul__/inverse", "QuadricTensor.contains/tangent/is_tangent/polar", "SegmentTensor.contains/length/midpoint", "PolygonTensor.contains/area",
                  "Triangle.contains", "PointLikeTensor.__add__/__sub__/_normalize_array"],
    "bounds": "2-D for every operation, 3-D for the algebraic ones; single objects; one argument at a time multiplied by a free real factor lambda != 0 of either sign (complex factor for ==); "
              "polygons: lattice polygon with one vertex given by an arbitrary non-zero multiple, query point free",
    "outside": "collections (C04), magnitudes interacting with the 1e-8 tolerances (idealised), rounding",
    "assumptions": ["tolerances idealised to 0 removes, as the property intends, the deliberate scale dependence of the tolerances"],
}


def is_sym_scalar_(x):
    return type(x).__name__ in ("Alg", "Cx")


def _scaled(obj, lam, row=None):
    """same projective object, coordinate array (or one vertex row) multiplied by lam"""
    arr = obj.array
    if is_sym_scalar_(lam) and not hasattr(arr, "plain"):
        from symgeo.symarr import to_sym
        arr = to_sym(arr)
    if row is None:
        new = arr * lam
    else:
        new = arr.copy()
        new[row] = arr[row] * lam
    kw = {}
    if hasattr(obj, "is_dual"):
        kw["is_dual"] = obj.is_dual
    return type(obj)(new, **kw)


def _same(ctx, tag, r0, r1):
    from geometer.base import Tensor
    if isinstance(r0, (list, tuple)):
        ctx.require(f"{tag}:same-length", isinstance(r1, (list, tuple)) and len(r0) == len(r1))
        if isinstance(r1, (list, tuple)) and len(r0) == len(r1):
            # unordered comparison is not needed: the algorithms are deterministic in order up to the scalar
            for i, (x, y) in enumerate(zip(r0, r1)):
                _same(ctx, f"{tag}[{i}]", x, y)
        return
    if isinstance(r0, Tensor):
        ctx.require(f"{tag}:class", type(r0) is type(r1))
        if type(r0) is type(r1):
            ctx.require(f"{tag}:proportional", R.proportional(ctx, E(r0), E(r1)))
        return
    if isinstance(r0, (bool, np.bool_)) or (ctx.symbolic and type(r0).__name__ == "SymBool") or (hasattr(r0, "dtype") and getattr(r0, "dtype", None) == bool):
        ctx.require(f"{tag}:same-truth-value", ctx.iff(ctx.truth(r0), ctx.truth(r1)))
        return
    ctx.require(f"{tag}:same-number", ctx.eq(r0, r1))


def _call(f, *args):
    try:
        return "ok", f(*args)
    except Exception as e:
        from symgeo.state import UnsupportedSymbolic
        if isinstance(e, UnsupportedSymbolic):
            raise
        return type(e).__name__, None


def mk_rel(name, build, f, positions, rows=None):
    """f(*objs) compared with f(*objs with position k scaled)"""
    def case(ctx):
        objs = build(ctx)
        lam = ctx.real("lam")
        ctx.assume(ctx.neg(ctx.is_zero(lam)))
        t0, r0 = _call(f, *objs)
        for k in positions:
            for row in (rows or {}).get(k, [None]):
                objs2 = list(objs)
                objs2[k] = _scaled(objs[k], lam, row)
                t1, r1 = _call(f, *objs2)
                tag = f"{name}:arg{k}" + (f"row{row}" if row is not None else "")
                if t0 != t1:
                    # differing outcomes of the two runs on one joint path: almost always an infeasible combination that the solver
                    # cannot refute cheaply -> bounded counterexample search only (a hit is a violation)
                    ctx.hunt(f"{tag}:same-outcome", False)
                if t0 == "ok" and t1 == "ok":
                    _same(ctx, tag, r0, r1)
    return case


# ------------------------------------------------------------------ builders

def _nzvec(ctx, name, n):
    v = vec(ctx, name, n)
    ctx.assume(R.nonzero(ctx, E(v)))
    return v


def b_pp(n, finite=False):
    def b(ctx):
        from geometer import Point
        p, q = _nzvec(ctx, "p", n), _nzvec(ctx, "q", n)
        if finite:
            ctx.assume(ctx.neg(ctx.is_zero(E(p)[-1])))
            ctx.assume(ctx.neg(ctx.is_zero(E(q)[-1])))
        return [Point(p), Point(q)]
    return b


def b_ppp(n):
    def b(ctx):
        from geometer import Point
        return [Point(_nzvec(ctx, k, n)) for k in "pqr"]
    return b


def b_lp(ctx):
    from geometer import Point, Line
    return [Line(_nzvec(ctx, "l", 3)), Point(_nzvec(ctx, "p", 3))]


def b_ll(ctx):
    from geometer import Line
    return [Line(_nzvec(ctx, "l", 3)), Line(_nzvec(ctx, "m", 3))]


def b_ep(ctx):
    from geometer import Point, Plane
    return [Plane(_nzvec(ctx, "e", 4)), Point(_nzvec(ctx, "p", 4))]


def b_cr(ctx):
    from geometer import Point
    a, b = _nzvec(ctx, "a", 3), _nzvec(ctx, "b", 3)
    ctx.assume(ctx.neg(R.rank_deficient(ctx, [E(a), E(b)])))
    pts = []
    for k in range(4):
        mu, xi = ctx.real(f"mu{k}"), ctx.real(f"xi{k}")
        pts.append(Point(mk_array(ctx, [mu * u + xi * v for u, v in zip(E(a), E(b))])))
    for i in range(4):
        for j in range(i + 1, 4):
            ctx.assume(ctx.neg(R.proportional(ctx, E(pts[i]), E(pts[j]))))
    return pts


def b_tp(ctx):
    from geometer import Transformation, Point
    t = ctx.reals("t", 3, 3)
    ctx.assume(ctx.neg(ctx.is_zero(R.det(R.mat(t)))))
    return [Transformation(t), Point(_nzvec(ctx, "p", 3))]


def b_tl(ctx):
    from geometer import Transformation, Line
    t = ctx.reals("t", 3, 3)
    ctx.assume(ctx.neg(ctx.is_zero(R.det(R.mat(t)))))
    return [Transformation(t), Line(_nzvec(ctx, "l", 3))]


def b_qp(ctx):
    from geometer import Conic, Point
    s = ctx.reals("s", 3, 3)
    S = R.mat(s)
    rows = [[S[min(i, j)][max(i, j)] for j in range(3)] for i in range(3)]
    ctx.assume(ctx.neg(ctx.is_zero(R.det(rows))))
    return [Conic(mk_array(ctx, rows)), Point(_nzvec(ctx, "p", 3))]


def b_ql(ctx):
    from geometer import Line
    q, _ = b_qp(ctx)
    return [q, Line(_nzvec(ctx, "l", 3))]


def b_seg_p(ctx):
    from geometer import Segment, Point
    a, b = _nzvec(ctx, "a", 3), _nzvec(ctx, "b", 3)
    ctx.assume(ctx.neg(ctx.is_zero(E(a)[2])))
    ctx.assume(ctx.neg(ctx.is_zero(E(b)[2])))
    ctx.assume(ctx.neg(R.rank_deficient(ctx, [E(a), E(b)])))
    return [Segment(Point(a), Point(b)), Point(_nzvec(ctx, "p", 3))]


def b_seg_conc(ctx):
    from geometer import Segment, Point
    return [Segment(Point(-1.0, 2.0), Point(3.0, 1.0)), Point(_nzvec(ctx, "p", 3))]


def b_tri_p(ctx):
    from geometer import Triangle, Point
    vs = [_nzvec(ctx, k, 3) for k in "abc"]
    for v in vs:
        ctx.assume(ctx.neg(ctx.is_zero(E(v)[2])))
    ctx.assume(ctx.neg(ctx.is_zero(R.det([E(v) for v in vs]))))
    return [Triangle(*[Point(v) for v in vs]), Point(_nzvec(ctx, "p", 3))]


def b_poly_p(poly):
    def b(ctx):
        from geometer import Polygon, Point
        return [Polygon(*[Point(float(x), float(y)) for x, y in poly]), Point(_nzvec(ctx, "p", 3))]
    return b


def case_eq(cls_name, n, cplx=False):
    """== holds for every non-zero multiple, is reflexive and symmetric, and is false when a 2x2 minor is non-zero"""
    def case(ctx):
        import geometer
        cls = getattr(geometer, cls_name)
        shape = (n, n) if cls_name in ("Transformation", "Quadric") else (n,)
        a = ctx.complexes("a", *shape) if cplx else ctx.reals("a", *shape)
        b = ctx.complexes("b", *shape) if cplx else ctx.reals("b", *shape)
        ctx.assume(R.nonzero(ctx, E(a)))
        ctx.assume(R.nonzero(ctx, E(b)))
        if cplx:
            lam = ctx.complexes("lam", 1)[0]
            ctx.assume(R.nonzero(ctx, [lam.real, lam.imag] if not ctx.symbolic else [lam.re, lam.im]))
        else:
            lam = ctx.real("lam")
            ctx.assume(ctx.neg(ctx.is_zero(lam)))
        A, B = cls(a), cls(b)
        ctx.require("eq:reflexive", A == A)
        ctx.require("eq:multiple", A == cls(a * lam))
        ctx.require("eq:multiple-symmetric", cls(a * lam) == A)
        ab, ba = (A == B), (B == A)
        ctx.require("eq:symmetric", ab == ba)
        prop = R.proportional(ctx, E(a), E(b))
        ctx.require("eq:iff-proportional", ctx.iff(ab, prop))
    return case


def case_rotation_axis(ctx):
    """rotation(theta, axis) does not depend on the representative of the axis point (in particular not on its sign)"""
    from geometer import rotation, Point
    from harness.C08 import _angle
    th, c, s = _angle(ctx, "theta")
    ax = [ctx.real(f"a{i}") for i in range(3)]
    ctx.assume(R.nonzero(ctx, ax))
    w1, w2 = ctx.real("w1"), ctx.real("w2")
    ctx.assume(ctx.neg(ctx.is_zero(w1)))
    ctx.assume(ctx.neg(ctx.is_zero(w2)))
    T1 = rotation(th, axis=Point(mk_array(ctx, [w1 * x for x in ax] + [w1])))
    T2 = rotation(th, axis=Point(mk_array(ctx, [w2 * x for x in ax] + [w2])))
    ctx.require("rotation:axis-representative", R.proportional(ctx, E(T1.array), E(T2.array)))


SC_CONICS = [[[1, 0, -2], [0, 1, 0], [-2, 0, 3]], [[0, 1, 0], [1, 0, 0], [0, 0, -2]], [[1, 0, 0], [0, 1, 0], [0, 0, -1]], [[1, 0, 1], [0, 0, 0], [1, 0, -3]]]
SC_LINES = [[0, 1, 0], [1, 0, -2], [0, 1, -1], [1, -1, 0]]


def mk_conic_scaled(k, j):
    """Conic(lam * A) (lam != 0 free, either sign) meets / touches a lattice line in the same points as Conic(A)"""
    def case(ctx):
        from geometer import Conic, Line
        A = SC_CONICS[k]
        lam = ctx.real("lam")
        ctx.assume(ctx.neg(ctx.is_zero(lam)))
        L = Line(ctx.const(SC_LINES[j], float))
        ref = [E(p) for p in Conic(ctx.const(A, float)).intersect(L)]
        C = Conic(mk_array(ctx, [[lam * x for x in r] for r in A]))
        pts = [E(p) for p in C.intersect(L)]
        ctx.outcome(f"n={len(pts)}/{len(ref)}")
        ctx.require("conic-scaled:same-number-of-points", len(pts) == len(ref))
        for i, p in enumerate(pts):
            ctx.require(f"conic-scaled:point[{i}]-nonzero", R.nonzero(ctx, p))
        if len(pts) == len(ref) == 2:
            direct = ctx.all([R.proportional(ctx, pts[0], ref[0]), R.proportional(ctx, pts[1], ref[1])])
            swapped = ctx.all([R.proportional(ctx, pts[0], ref[1]), R.proportional(ctx, pts[1], ref[0])])
            ctx.require("conic-scaled:same-points", ctx.any([direct, swapped]))
        elif len(pts) == len(ref) == 1:
            ctx.require("conic-scaled:same-points", R.proportional(ctx, pts[0], ref[0]))
    return case


def case_sphere_circle_representative(ctx):
    """Sphere / Circle built from an integer-typed representative of the centre with weight != 1 and an integer radius describe the same
    quadric as the ones built from the normalised float centre (free real query point)"""
    from geometer import Sphere, Circle, Point
    x = vec(ctx, "x", 4)
    for rep, cart, r in (([1, 2, 3, 2], (0.5, 1.0, 1.5), 2), ([-3, 1, 0, -2], (1.5, -0.5, 0.0), 1), ([2, 4, 6, 2], (1.0, 2.0, 3.0), 3)):
        S1, S2 = Sphere(Point(np.array(rep)), r), Sphere(Point(*cart), float(r))
        ctx.require(f"sphere{rep}:same-locus-as-normalised-centre", ctx.iff(ctx.truth(S1.contains(Point(x))), ctx.truth(S2.contains(Point(x)))))
    y = vec(ctx, "y", 3)
    for rep, cart, r in (([1, 3, 2], (0.5, 1.5), 1), ([-2, 5, -4], (0.5, -1.25), 2)):
        C1, C2 = Circle(Point(np.array(rep)), r), Circle(Point(*cart), float(r))
        ctx.require(f"circle{rep}:same-locus-as-normalised-centre", ctx.iff(ctx.truth(C1.contains(Point(y))), ctx.truth(C2.contains(Point(y)))))


def cases(tier, seed):
    from geometer import join, meet, crossratio, dist, is_collinear, is_perpendicular
    Q, T = ("quick", "thorough"), ("thorough",)
    cs = []

    def add(name, fn, **kw):
        cs.append(Case(name, fn, **kw))
    for cls, n in (("Point", 3), ("Line", 3), ("Plane", 4), ("Point", 4)):
        add(f"eq_{cls}{n}", case_eq(cls, n), tiers=Q, max_paths=3000)
    add("eq_Point3_complex", case_eq("Point", 3, True), tiers=T, max_paths=6000)
    add("eq_Transformation3", case_eq("Transformation", 3), tiers=T, max_paths=20000)
    add("eq_Quadric3", case_eq("Quadric", 3), tiers=T, max_paths=20000)
    add("rotation_axis_representative", case_rotation_axis, tiers=Q, max_paths=2000)
    add("sphere_circle_int_representative", case_sphere_circle_representative, tiers=Q, max_paths=2000)
    for k in range(len(SC_CONICS)):
        for j in range(len(SC_LINES)):
            add(f"conic{k}_scaled_x_line{j}", mk_conic_scaled(k, j), tiers=Q, max_paths=2000)
    rel = [
        ("contains2d", b_lp, lambda l, p: l.contains(p), [0, 1], Q),
        ("contains3d", b_ep, lambda e, p: e.contains(p), [0, 1], Q),
        ("is_parallel", b_ll, lambda l, m: l.is_parallel(m), [0, 1], Q),
        ("join2d", b_pp(3), lambda p, q: join(p, q), [0, 1], Q),
        ("meet2d", b_ll, lambda l, m: meet(l, m), [0, 1], Q),
        ("join3d", b_pp(4), lambda p, q: join(p, q), [0, 1], Q),
        ("join3d_ppp", b_ppp(4), lambda p, q, r: join(p, q, r), [0, 2], Q),
        ("is_collinear", b_ppp(3), lambda p, q, r: is_collinear(p, q, r), [0, 2], Q),
        ("crossratio", b_cr, lambda a, b, c, d: crossratio(a, b, c, d), [0, 2, 3], Q),
        ("dist_pp_2d", b_pp(3, True), lambda p, q: dist(p, q), [0, 1], Q),
        ("dist_pl_2d", b_lp, lambda l, p: dist(p, l), [0, 1], T),
        ("point_add", b_pp(3, True), lambda p, q: p + q, [0, 1], Q),
        ("point_sub", b_pp(3, True), lambda p, q: p - q, [0, 1], Q),
        ("normalized_array", b_pp(3, True), lambda p, q: p.normalized_array, [0], Q),
        ("parallel", b_lp, lambda l, p: l.parallel(p), [0, 1], Q),
        ("perpendicular", b_lp, lambda l, p: l.perpendicular(p), [0, 1], T),
        ("is_perpendicular", b_ll, lambda l, m: is_perpendicular(l, m), [0, 1], Q),
        ("transform_point", b_tp, lambda t, p: t * p, [0, 1], Q),
        ("transform_line", b_tl, lambda t, l: t * l, [0, 1], Q),
        ("inverse", b_tp, lambda t, p: t.inverse(), [0], Q),
        ("quadric_contains", b_qp, lambda q, p: q.contains(p), [0, 1], Q),
        ("quadric_polar", b_qp, lambda q, p: q.polar(p), [0, 1], Q),
        ("quadric_tangent", b_qp, lambda q, p: q.tangent(p), [0, 1], T),
        ("quadric_is_tangent", b_ql, lambda q, l: q.is_tangent(l), [0, 1], Q),
        ("quadric_is_degenerate", b_qp, lambda q, p: q.is_degenerate, [0], Q),
    ]
    for name, build, f, pos, tiers in rel:
        add(name, mk_rel(name, build, f, pos), tiers=tiers, max_paths=2000)
    add("segment_contains_v0", mk_rel("segment_contains", b_seg_p, lambda s, p: s.contains(p), [0], rows={0: [0]}), tiers=T, max_paths=2000)
    add("segment_contains_v1", mk_rel("segment_contains", b_seg_p, lambda s, p: s.contains(p), [0], rows={0: [1]}), tiers=T, max_paths=2000)
    add("segment_contains_lattice", mk_rel("segment_contains_lattice", b_seg_conc, lambda s, p: s.contains(p), [0], rows={0: [0, 1]}), tiers=Q, max_paths=2000)
    add("segment_contains_p", mk_rel("segment_contains", b_seg_p, lambda s, p: s.contains(p), [1]), tiers=T, max_paths=2000)
    add("segment_contains_lattice_p", mk_rel("segment_contains_lattice_p", b_seg_conc, lambda s, p: s.contains(p), [1]), tiers=Q, max_paths=2000)
    add("segment_length", mk_rel("segment_length", b_seg_p, lambda s, p: s.length, [0], rows={0: [0, 1]}), tiers=Q, max_paths=2000)
    add("segment_midpoint", mk_rel("segment_midpoint", b_seg_p, lambda s, p: s.midpoint, [0], rows={0: [0, 1]}), tiers=T, max_paths=3000)
    add("triangle_contains", mk_rel("triangle_contains", b_tri_p, lambda t, p: t.contains(p), [0, 1], rows={0: [0, 2]}), tiers=Q, max_paths=2000)
    for i, poly in enumerate([[(0, 0), (2, 0), (2, 2), (0, 2)], [(0, 0), (2, 0), (1, 1), (0, 2)]]):
        add(f"polygon_contains_{i}", mk_rel(f"polygon_contains_{i}", b_poly_p(poly), lambda P, p: P.contains(p), [0, 1], rows={0: [1, 2]}), tiers=Q, max_paths=3000)
        add(f"polygon_area_{i}", mk_rel(f"polygon_area_{i}", b_poly_p(poly), lambda P, p: P.area, [0], rows={0: [1]}), tiers=Q, max_paths=2000)
    return cs
