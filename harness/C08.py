"""C08 - transformation constructors realise their Euclidean / projective definition."""
from __future__ import annotations

import math

import numpy as np

from symgeo.driver import Case
from symgeo import refgeo as R
from harness.common import vec, E
from harness.tr import mk_array

EVIDENCE = {
    "functions": ["transformation.translation/rotation/scaling/reflection/affine_transform/identity", "Transformation.from_points", "PointLikeTensor._normalize_array", "LineTensor.basis_matrix/base_point (reflection)",
                  "base.TensorDiagram (rotation about an axis)", "utils.math.outer"],
    "bounds": "2-D and 3-D; rotation about an axis: also independence of the weight (sign) of the axis point for 3 lattice axes; offsets, angles (a symbolic angle: cos/sin pair with c^2+s^2=1, addition theorem), axis directions (free reals, arbitrary non-zero weight of the axis point), scale "
              "factors, mirror lines and 4-point frames are free reals",
    "outside": "numeric value of cos/sin, reflection at a plane in 3-D (QR stub; thorough), from_points in 3-D (thorough), from_points_and_conics symbolically (nested complex radicals; only a supplementary concrete lattice case with weighted representatives, not a solver verdict), rounding",
    "assumptions": ["np.cos/np.sin of a symbolic angle: Pythagoras + addition theorem (stub)", "np.linalg.solve/inv exact (stub)", "ProjectiveTensor.__eq__/is_multiple: lemma proved in C20"],
}


def _setup():
    from symgeo.lemmas import use_is_multiple_lemma
    use_is_multiple_lemma(True)


def _angle(ctx, name):
    """(angle value to pass to the library, cos, sin)"""
    if ctx.symbolic:
        from symgeo.trig import new_angle, angle_cs
        th = new_angle(name)
        c, s = angle_cs(th)
        return th, c, s
    t = ctx.real(name)
    return t, math.cos(t), math.sin(t)


def mk_translation(dim, as_point):
    def case(ctx):
        from geometer import translation, Point
        v = [ctx.real(f"v{i}") for i in range(dim)]
        if as_point:
            w = ctx.real("w")
            ctx.assume(ctx.neg(ctx.is_zero(w)))
            T = translation(Point(mk_array(ctx, [w * x for x in v] + [w])))
        else:
            T = translation(*v)
        p = vec(ctx, "p", dim + 1)
        pe = E(p)
        ctx.assume(R.nonzero(ctx, pe))
        q = E(T * Point(p))
        ref = [pe[i] + v[i] * pe[dim] for i in range(dim)] + [pe[dim]]
        ctx.require("translation:maps-p-to-p+v", R.proportional(ctx, q, ref))
        M = R.mat(T.array)
        refM = [[(1 if i == j else 0) if j < dim else (v[i] if i < dim else 1) for j in range(dim + 1)] for i in range(dim + 1)]
        ctx.require("translation:matrix", R.proportional(ctx, [x for r in M for x in r], [x for r in refM for x in r]))
    return case


def case_rotation2d(ctx):
    from geometer import rotation, Point
    a, ca, sa = _angle(ctx, "alpha")
    b, cb, sb = _angle(ctx, "beta")
    Ra = rotation(a)
    x, y = ctx.real("x"), ctx.real("y")
    q = E(Ra * Point(mk_array(ctx, [x, y, 1])))
    ctx.require("rotation:counter-clockwise-image", R.proportional(ctx, q, [ca * x - sa * y, sa * x + ca * y, 1]))
    Rab = rotation(a) * rotation(b)
    Rsum = rotation(a + b)
    ctx.require("rotation:composition-is-sum-of-angles", R.proportional(ctx, E(Rab.array), E(Rsum.array)))
    ctx.require("rotation:matrix-nonzero", R.nonzero(ctx, E(Ra.array)))


def case_rotation3d(ctx):
    from geometer import rotation, Point
    th, c, s = _angle(ctx, "theta")
    ax = [ctx.real(f"a{i}") for i in range(3)]
    ctx.assume(R.nonzero(ctx, ax))
    w = ctx.real("w")
    ctx.assume(ctx.neg(ctx.is_zero(w)))
    T = rotation(th, axis=Point(mk_array(ctx, [w * x for x in ax] + [w])))
    M = R.mat(T.array)
    k = M[3][3]
    ctx.require("rotation3d:affine", ctx.all([ctx.is_zero(M[3][j]) for j in range(3)] + [ctx.is_zero(M[i][3]) for i in range(3)] + [ctx.neg(ctx.is_zero(k))]))
    Rm = [[M[i][j] for j in range(3)] for i in range(3)]
    RtR = R.matmul(R.transpose(Rm), Rm)
    for i in range(3):
        for j in range(3):
            ctx.require(f"rotation3d:orthogonal[{i}{j}]", ctx.eq(RtR[i][j], k * k if i == j else 0))
    ctx.require("rotation3d:det=1", ctx.eq(R.det(Rm), k * k * k))
    Ra = R.matvec(Rm, ax)
    ctx.require("rotation3d:fixes-the-axis", ctx.all([ctx.eq(Ra[i], k * ax[i]) for i in range(3)]))
    tr = Rm[0][0] + Rm[1][1] + Rm[2][2]
    ctx.require("rotation3d:trace=1+2cos", ctx.eq(tr, k * (1 + 2 * c)))
    # sense of rotation: antisymmetric part = sin(theta) * hat(a/|a|):  (R - R^T)/2 has entries s * a_k/|a|; squared to avoid the norm: |axial vector|^2 = s^2
    axial = [(Rm[2][1] - Rm[1][2]) / 2, (Rm[0][2] - Rm[2][0]) / 2, (Rm[1][0] - Rm[0][1]) / 2]
    n2 = sum(x * x for x in ax)
    ctx.require("rotation3d:axial-vector-parallel-to-axis", R.proportional(ctx, axial, ax))
    ctx.require("rotation3d:axial-vector-length", ctx.eq(sum(x * x for x in axial), k * k * s * s))
    # the property fixes the amount |theta| of the turn, not its sense (the library turns clockwise seen from the tip of the axis)


def case_rotation3d_weight(ctx):
    """the rotation about the axis through the origin and a point does not depend on the weight (in particular not on the sign) of the
    homogeneous representative of that point: same matrix as for weight 1, so the sense of rotation is the same too"""
    from geometer import rotation, Point
    th, c, s = _angle(ctx, "theta")
    w = ctx.real("w")
    ctx.assume(ctx.neg(ctx.is_zero(w)))
    for ax in ([1, 2, 2], [0, 3, -4], [2, -1, 2]):
        T = rotation(th, axis=Point(mk_array(ctx, [w * x for x in ax] + [w])))
        T1 = rotation(th, axis=Point(ctx.const(ax + [1], float)))
        ctx.require(f"rotation3d:axis{ax}:independent-of-the-weight-of-the-axis-point", ctx.all([ctx.eq(u, v) for u, v in zip(E(T.array), E(T1.array))]))


def case_scaling(ctx):
    from geometer import scaling, Point
    f = [ctx.real(f"f{i}") for i in range(3)]
    T = scaling(*f)
    p = vec(ctx, "p", 4)
    pe = E(p)
    q = E(T * Point(p))
    ctx.assume(R.nonzero(ctx, pe))
    ctx.require("scaling:multiplies-coordinates", R.proportional(ctx, q, [f[i] * pe[i] for i in range(3)] + [pe[3]]))


def case_reflection2d(ctx):
    from geometer import reflection, Line, Point
    l = vec(ctx, "l", 3)
    le = E(l)
    ctx.assume(ctx.neg(ctx.all([ctx.is_zero(le[0]), ctx.is_zero(le[1])])))
    T = reflection(Line(l))
    M = R.mat(T.array)
    # reference reflection matrix: p -> n2 p - 2 (l.p) (l0, l1, 0)
    n2 = le[0] * le[0] + le[1] * le[1]
    ref = [[n2 - 2 * le[0] * le[0], -2 * le[0] * le[1], -2 * le[0] * le[2]],
           [-2 * le[0] * le[1], n2 - 2 * le[1] * le[1], -2 * le[1] * le[2]],
           [0, 0, n2]]
    ctx.require("reflection:matrix-is-the-reflection", R.proportional(ctx, [x for r in M for x in r], [x for r in ref for x in r]))
    ctx.require("reflection:nonzero", R.nonzero(ctx, [x for r in M for x in r]))
    MM = R.matmul(M, M)
    ctx.require("reflection:involution", R.proportional(ctx, [x for r in MM for x in r], [1, 0, 0, 0, 1, 0, 0, 0, 1]))


def case_from_points2d(ctx):
    from geometer import Transformation, Point
    src = [vec(ctx, f"s{i}", 3) for i in range(4)]
    dst = [vec(ctx, f"d{i}", 3) for i in range(4)]
    import itertools
    for pts in (src, dst):
        for i, j, k in itertools.combinations(range(4), 3):
            ctx.assume(ctx.neg(ctx.is_zero(R.det([E(pts[i]), E(pts[j]), E(pts[k])]))))
    try:
        T = Transformation.from_points(*[(Point(a), Point(b)) for a, b in zip(src, dst)])
    except np.linalg.LinAlgError:
        ctx.outcome("LinAlgError")
        ctx.hunt("from_points:defined-for-frames-in-general-position", False)
        return
    M = R.mat(T.array)
    for i in range(4):
        ctx.require(f"from_points:maps-source[{i}]-to-target", R.proportional(ctx, R.matvec(M, E(src[i])), E(dst[i])))
    ctx.hunt("from_points:matrix-nonzero", R.nonzero(ctx, [x for r in M for x in r]))


def case_identity_affine(ctx):
    from geometer import identity, affine_transform
    for d in (2, 3):
        I = R.mat(identity(d).array)
        ctx.require(f"identity({d})", all(ctx.eq(I[i][j], 1 if i == j else 0) for i in range(d + 1) for j in range(d + 1)))
    m = ctx.reals("m", 2, 2)
    o = ctx.reals("o", 2)
    A = R.mat(affine_transform(m, o).array)
    Mm, oe = R.mat(m), E(o)
    ref = [[Mm[0][0], Mm[0][1], oe[0]], [Mm[1][0], Mm[1][1], oe[1]], [0, 0, 1]]
    ctx.require("affine_transform:matrix", ctx.all([ctx.eq(A[i][j], ref[i][j]) for i in range(3) for j in range(3)]))


def custom_from_points_and_conics(tier, seed):
    """supplementary, NOT a solver verdict (nested complex radicals: the symbolic query is outside the claim): Transformation.from_points_and_conics for
    circles through lattice points given by representatives with weights of either sign: the three points and the conic go where they should"""
    import itertools
    import time
    from geometer import Circle, Point, Transformation
    t0 = time.time()
    res = {"paths": 0, "forks": 0, "obligations": 0, "ob_total": 0, "violations": [], "inconclusive": [], "samples": [], "by_step": {"evaluated": 0},
           "outcomes": {}, "reach": {}, "validated": 0, "solver_time": 0.0}
    seen = set()
    confs = [((0, 0), 1, [(0, -1), (0, 1), (1, 0)], (0, 2), 2, [(0, 0), (0, 4), (2, 2)]),
             ((1, -1), 5, [(4, 3), (-2, 3), (1, 4)], (-2, 0), 5, [(1, 4), (3, 0), (-5, 4)]),
             ((1, -1), 5, [(1, 4), (4, 3), (-2, 3)], (-2, 0), 5, [(-5, 4), (1, 4), (3, 0)])]
    weights = [(1, 1, 1), (1, 1, 2), (1, 1, -0.5), (3, -2, 0.25), (-1, 2, 4)]
    for ci, (c1, r1, src, c2, r2, dst) in enumerate(confs):
        for w1, w2 in itertools.product(weights, weights[:3]):
            res["ob_total"] += 1
            res["obligations"] += 1
            res["by_step"]["evaluated"] += 1
            res["paths"] += 1
            bad = None
            try:
                P1 = [Point(np.array([x * w, y * w, w], dtype=float)) for (x, y), w in zip(src, w1)]
                P2 = [Point(np.array([x * w, y * w, w], dtype=float)) for (x, y), w in zip(dst, w2)]
                T = Transformation.from_points_and_conics(P1, P2, Circle(Point(*c1), r1), Circle(Point(*c2), r2))
                M = np.asarray(T.array, dtype=complex)
                M = M / np.abs(M).max()
                if abs(np.linalg.det(M)) < 1e-9:
                    bad = "from_points_and_conics:singular-matrix"
                else:
                    def img(xy):
                        v = M @ np.array([xy[0], xy[1], 1.0])
                        return v[:2] / v[2]
                    if not all(np.allclose(img(a), b, atol=1e-6) for a, b in zip(src, dst)):
                        bad = "from_points_and_conics:points-not-mapped"
                    else:
                        for phi in np.linspace(0.1, 6.2, 9):
                            x = img((c1[0] + r1 * np.cos(phi), c1[1] + r1 * np.sin(phi)))
                            dd = x - np.array(c2)
                            if not np.isclose(np.sqrt(dd[0] * dd[0] + dd[1] * dd[1]), r2, atol=1e-6):
                                bad = "from_points_and_conics:conic-not-mapped"
            except Exception as e:
                bad = f"from_points_and_conics:{type(e).__name__}"
            if bad and bad not in seen:
                seen.add(bad)
                res["violations"].append({"case": "from_points_and_conics_lattice", "obligation": bad, "env": {"config": str(ci), "w1": str(w1), "w2": str(w2)}, "replay": {"failed": [bad]}})
    res["wall"] = time.time() - t0
    return res


def cases(tier, seed):
    Q, T = ("quick", "thorough"), ("thorough",)
    cs = []

    def add(name, fn, **kw):
        cs.append(Case(name, fn, setup=_setup, **kw))
    for dim in (2, 3):
        add(f"translation_{dim}d", mk_translation(dim, False), tiers=Q)
        add(f"translation_{dim}d_point", mk_translation(dim, True), tiers=Q)
    add("rotation_2d", case_rotation2d, tiers=Q)
    add("rotation_3d_axis", case_rotation3d, tiers=Q, max_paths=2000)
    add("rotation_3d_axis_weight", case_rotation3d_weight, tiers=Q, max_paths=2000)
    add("scaling", case_scaling, tiers=Q)
    add("reflection_2d", case_reflection2d, tiers=Q, max_paths=2000)
    add("from_points_2d", case_from_points2d, tiers=Q, max_paths=2000)
    add("identity_affine", case_identity_affine, tiers=Q)
    cs.append(Case("from_points_and_conics_lattice", custom_from_points_and_conics, kind="custom"))
    return cs
