"""C09 - dist and angle equal the Cartesian distance and angle."""
from __future__ import annotations

import math

import numpy as np

from symgeo.driver import Case
from symgeo import refgeo as R
from harness.common import vec, E, line3_from_points
from harness.tr import mk_array

EVIDENCE = {
    "functions": ["operators.dist (all kind dispatch branches reached below)", "operators._point_dist", "operators.angle", "operators.crossratio (from_point branch)", "SubspaceTensor.project",
                  "LineTensor.perpendicular/mirror", "PlaneTensor.perpendicular", "utils.math.orth (SVD contract stub)", "SegmentTensor.length", "PointLikeTensor._normalize_array"],
    "bounds": "2-D: all coordinates free reals (arbitrary representatives); angle: three points / two lines in the plane, lattice triangles in 3-space; point-segment distance for 3 lattice segments x free point; single objects; "
              "supplementary concrete lattice evaluation (not a solver verdict): point x convex polygon in 3-space (also translated / shifted polygons) and cuboid on a 4^3 (thorough 6^3) lattice of points, parallel planes",
    "outside": "3-D distances (point-point through the SVD stub, point-plane): attempted (tier 'attempt'), not decided within budget -> not claimed; the numeric value of log (contract stub: the returned angle phi satisfies exp(2 i phi) = cr/|cr|), 3-D point-line distance (nested complex radicals), polygons / polyhedra "
               "as operands (thorough), collections (C04), rounding",
    "assumptions": ["np.log of a complex number: inverse of exp on the principal branch (stub)", "np.linalg.svd: contract stub", "ProjectiveTensor.__eq__/is_multiple: lemma proved in C20"],
}


def _setup():
    from symgeo.lemmas import use_is_multiple_lemma
    from symgeo import symnp
    use_is_multiple_lemma(True)
    symnp.SVD_RANK["rank"] = 2


def _nz(ctx, v):
    ctx.assume(R.nonzero(ctx, E(v)))
    return v


def _finite(ctx, v):
    ctx.assume(ctx.neg(ctx.is_zero(E(v)[-1])))
    return v


def _is_inf(ctx, d):
    if ctx.symbolic:
        return getattr(d, "special", None) == "inf"
    return bool(np.isinf(d))


def _is_special(ctx, d):
    if ctx.symbolic:
        return getattr(d, "special", None) is not None
    return not bool(np.isfinite(d))


def mk_dist_pp(dim, affine=False, lattice_p=None):
    def case(ctx):
        from geometer import Point, dist
        n = dim + 1
        if lattice_p is not None:
            p = ctx.const(list(lattice_p), float)
            q = mk_array(ctx, [ctx.real(f"q_{i}") for i in range(dim)] + [1])
        elif affine:
            p = mk_array(ctx, [ctx.real(f"p_{i}") for i in range(dim)] + [1])
            q = mk_array(ctx, [ctx.real(f"q_{i}") for i in range(dim)] + [1])
        else:
            p, q = _nz(ctx, vec(ctx, "p", n)), _nz(ctx, vec(ctx, "q", n))
        pe, qe = E(p), E(q)
        pinf, qinf = ctx.fork(ctx.is_zero(pe[-1])), ctx.fork(ctx.is_zero(qe[-1]))
        d = dist(Point(p), Point(q))
        d2 = dist(Point(q), Point(p))
        ctx.outcome(f"pinf={pinf},qinf={qinf}")
        if pinf != qinf:
            ctx.require("dist-pp:infinite-when-exactly-one-point-at-infinity", _is_inf(ctx, d))
            ctx.require("dist-pp:symmetric-inf", _is_inf(ctx, d2))
            return
        if pinf and qinf:
            return
        ctx.require("dist-pp:finite", not _is_special(ctx, d))
        if _is_special(ctx, d):
            return
        pw, qw = pe[-1], qe[-1]
        sq = None
        for i in range(dim):
            t = (pe[i] * qw - qe[i] * pw)
            sq = t * t if sq is None else sq + t * t
        ctx.require("dist-pp:nonnegative", ctx.le(0, d))
        ctx.require("dist-pp:square-is-cartesian", ctx.eq(d * d * (pw * qw) * (pw * qw), sq))
        ctx.require("dist-pp:symmetric", ctx.eq(d, d2))
    return case


def case_dist_pl(ctx):
    """2-D point-line: d >= 0, d^2 (l0^2 + l1^2) pw^2 = (l.p)^2, symmetric, zero iff incident"""
    from geometer import Point, Line, dist
    p, l = _finite(ctx, _nz(ctx, vec(ctx, "p", 3))), _nz(ctx, vec(ctx, "l", 3))
    pe, le = E(p), E(l)
    ctx.assume(ctx.neg(ctx.all([ctx.is_zero(le[0]), ctx.is_zero(le[1])])))    # not the line at infinity
    P, L = Point(p), Line(l)
    d = dist(P, L)
    ctx.outcome("special" if _is_special(ctx, d) else "value")
    ctx.require("dist-pl:finite", not _is_special(ctx, d))
    if _is_special(ctx, d):
        return
    lp = R.dot(le, pe)
    ctx.require("dist-pl:nonnegative", ctx.le(0, d))
    ctx.require("dist-pl:square-is-cartesian", ctx.eq(d * d * (le[0] * le[0] + le[1] * le[1]) * pe[2] * pe[2], lp * lp))
    ctx.require("dist-pl:zero-iff-incident", ctx.iff(ctx.is_zero(d), ctx.is_zero(lp)))
    d2 = dist(L, P)
    ctx.require("dist-pl:symmetric", ctx.eq(d, d2))


def case_dist_pe(ctx):
    """3-D point-plane"""
    from geometer import Point, Plane, dist
    p = mk_array(ctx, [ctx.real(f"p_{i}") for i in range(3)] + [1])
    e = _nz(ctx, vec(ctx, "e", 4))
    pe, ee = E(p), E(e)
    ctx.assume(ctx.neg(ctx.all([ctx.is_zero(x) for x in ee[:3]])))
    d = dist(Point(p), Plane(e))
    ctx.outcome("special" if _is_special(ctx, d) else "value")
    ctx.require("dist-pe:finite", not _is_special(ctx, d))
    if _is_special(ctx, d):
        return
    ep = R.dot(ee, pe)
    n2 = ee[0] * ee[0] + ee[1] * ee[1] + ee[2] * ee[2]
    ctx.require("dist-pe:nonnegative", ctx.le(0, d))
    ctx.require("dist-pe:square-is-cartesian", ctx.eq(d * d * n2 * pe[3] * pe[3], ep * ep))


def _cs2(ctx, phi):
    """(cos 2phi, sin 2phi)"""
    if ctx.symbolic:
        from symgeo.trig import cs_of_expr
        return cs_of_expr(2 * phi)
    return math.cos(2 * phi), math.sin(2 * phi)


def _angle_ok(ctx, tag, phi, u, v):
    """phi is the oriented angle from v to u modulo pi:  exp(2 i phi) is a positive multiple of w^2, w = u.v + i (v x u)"""
    dotp = u[0] * v[0] + u[1] * v[1]
    crs = v[0] * u[1] - v[1] * u[0]
    re, im = dotp * dotp - crs * crs, 2 * dotp * crs
    c, s = _cs2(ctx, phi)
    ctx.require(f"{tag}:direction", ctx.eq(c * im, s * re))
    ctx.require(f"{tag}:orientation", ctx.le(0, c * re + s * im))


def case_angle_ppp(ctx):
    from geometer import Point, angle
    a, b, c = (_finite(ctx, _nz(ctx, vec(ctx, k, 3))) for k in "abc")
    ae, be, ce = E(a), E(b), E(c)
    ctx.assume(ctx.neg(R.proportional(ctx, ae, be)))
    ctx.assume(ctx.neg(R.proportional(ctx, ae, ce)))
    phi = angle(Point(a), Point(b), Point(c))
    # direction vectors (scaled by positive factors does not matter; use signed-weight-cleared forms times weight squares)
    u = [(be[i] * ae[2] - ae[i] * be[2]) * (ae[2] * be[2]) for i in range(2)]
    v = [(ce[i] * ae[2] - ae[i] * ce[2]) * (ae[2] * ce[2]) for i in range(2)]
    _angle_ok(ctx, "angle-ppp", phi, u, v)
    psi = angle(Point(a), Point(c), Point(b))
    ctx.require("angle-ppp:antisymmetric", ctx.eq(phi, -psi) if not ctx.symbolic else _anti(ctx, phi, psi))


def _anti(ctx, phi, psi):
    from symgeo.trig import cs_of_expr
    c1, s1 = cs_of_expr(2 * phi)
    c2, s2 = cs_of_expr(2 * psi)
    return ctx.all([ctx.eq(c1, c2), ctx.eq(s1, -s2)])


def case_angle_ll(ctx):
    from geometer import Line, angle
    l, m = _nz(ctx, vec(ctx, "l", 3)), _nz(ctx, vec(ctx, "m", 3))
    le, me = E(l), E(m)
    ctx.assume(ctx.neg(ctx.all([ctx.is_zero(le[0]), ctx.is_zero(le[1])])))
    ctx.assume(ctx.neg(ctx.all([ctx.is_zero(me[0]), ctx.is_zero(me[1])])))
    ctx.assume(ctx.neg(R.proportional(ctx, le, me)))
    phi = angle(Line(l), Line(m))
    # direction vectors of the lines (orientation modulo pi is irrelevant: w -> -w leaves w^2 unchanged)
    u = [le[1], -le[0]]
    v = [me[1], -me[0]]
    _angle_ok(ctx, "angle-ll", phi, u, v)


SEGMENTS = [([0, 0, 1], [4, 0, 1]), ([1, -1, 1], [-6, -4, -2]), ([-2, 1, 2], [0, 3, 1])]


def mk_dist_point_segment(k):
    """distance from a free finite point to a lattice segment (end points with arbitrary, also negative, weights)"""
    def case(ctx):
        from geometer import Segment, Point, dist
        a, b = SEGMENTS[k]
        seg = Segment(Point(ctx.const(a, float)), Point(ctx.const(b, float)))
        x, y = ctx.real("x"), ctx.real("y")
        q = Point(mk_array(ctx, [x, y, 1]))
        d = dist(seg, q)
        d2 = dist(q, seg)
        from fractions import Fraction
        A = [Fraction(a[0], a[2]), Fraction(a[1], a[2])] if ctx.symbolic else [a[0] / a[2], a[1] / a[2]]
        B = [Fraction(b[0], b[2]), Fraction(b[1], b[2])] if ctx.symbolic else [b[0] / b[2], b[1] / b[2]]
        ux, uy = B[0] - A[0], B[1] - A[1]
        L2 = ux * ux + uy * uy
        t = (x - A[0]) * ux + (y - A[1]) * uy          # parameter * L2
        if ctx.fork(ctx.lt(t, 0)):
            ref2 = (x - A[0]) * (x - A[0]) + (y - A[1]) * (y - A[1])
            ctx.outcome("before-a")
        elif ctx.fork(ctx.lt(L2, t)):
            ref2 = (x - B[0]) * (x - B[0]) + (y - B[1]) * (y - B[1])
            ctx.outcome("after-b")
        else:
            cr = (x - A[0]) * uy - (y - A[1]) * ux
            ref2 = cr * cr / L2
            ctx.outcome("foot-inside")
        ctx.require("dist-point-segment:nonnegative", ctx.le(0, d))
        ctx.require("dist-point-segment:square", ctx.eq(d * d, ref2))
        ctx.require("dist-point-segment:symmetric", ctx.eq(d, d2))
    return case


def case_angle_ppp_3d(ctx):
    """three points of 3-space: the angle equals the planar angle of the triangle (cosine and sine of 2 phi from dot / cross products)"""
    from geometer import Point, angle
    a = [2, -1, 4]
    b = [3, 0, 4]
    c = [ctx.real(f"c_{i}") for i in range(3)]
    phi = angle(Point(*[float(v) for v in a]), Point(*[float(v) for v in b]), Point(mk_array(ctx, c + [1])))
    u = [b[i] - a[i] for i in range(3)]
    v = [c[i] - a[i] for i in range(3)]
    dotp = sum(u[i] * v[i] for i in range(3))
    cr = [u[1] * v[2] - u[2] * v[1], u[2] * v[0] - u[0] * v[2], u[0] * v[1] - u[1] * v[0]]
    cr2 = cr[0] * cr[0] + cr[1] * cr[1] + cr[2] * cr[2]
    cs, sn = _cs2(ctx, phi)
    # cos 2phi = (dot^2 - |cross|^2)/(dot^2 + |cross|^2)  (orientation in space is not defined: sign of sin 2phi free, its square is fixed)
    ctx.require("angle-ppp-3d:cos2phi", ctx.eq(cs * (dotp * dotp + cr2), dotp * dotp - cr2))
    ctx.require("angle-ppp-3d:sin2phi-squared", ctx.eq(sn * sn * (dotp * dotp + cr2) * (dotp * dotp + cr2), 4 * dotp * dotp * cr2))


def case_angle_3d_lattice(ctx):
    """angle of lattice triangles in planes away from the origin: cos(2 phi) from dot and cross products"""
    from geometer import Point, angle
    from fractions import Fraction
    for a, b, c in (((2, -1, 4), (3, 0, 4), (2, 0, 5)), ((10, 10, 10), (11, 9, 10), (11, 11, 8)), ((0, 3, 5), (1, 3, 7), (-2, 4, 5))):
        phi = angle(Point(*[float(x) for x in a]), Point(*[float(x) for x in b]), Point(*[float(x) for x in c]))
        u = [b[i] - a[i] for i in range(3)]
        v = [c[i] - a[i] for i in range(3)]
        dotp = sum(u[i] * v[i] for i in range(3))
        cr = [u[1] * v[2] - u[2] * v[1], u[2] * v[0] - u[0] * v[2], u[0] * v[1] - u[1] * v[0]]
        cr2 = sum(x * x for x in cr)
        cs, sn = _cs2(ctx, phi)
        num, den = dotp * dotp - cr2, dotp * dotp + cr2
        ctx.require(f"angle-3d-lattice{a}:cos2phi", ctx.eq(cs * den, num))


def case_segment_length(ctx):
    from geometer import Segment, Point
    a, b = _finite(ctx, _nz(ctx, vec(ctx, "a", 3))), _finite(ctx, _nz(ctx, vec(ctx, "b", 3)))
    ae, be = E(a), E(b)
    ctx.assume(ctx.neg(R.proportional(ctx, ae, be)))
    L = Segment(Point(a), Point(b)).length
    sq = sum_sq([(ae[i] * be[2] - be[i] * ae[2]) for i in range(2)])
    ctx.require("segment-length:square", ctx.eq(L * L * (ae[2] * be[2]) * (ae[2] * be[2]), sq))
    ctx.require("segment-length:nonnegative", ctx.le(0, L))


def sum_sq(xs):
    t = None
    for x in xs:
        t = x * x if t is None else t + x * x
    return t


def case_isometry_invariance(ctx):
    """dist is unchanged by rotation(c,s) . translation(v) (2-D)"""
    from geometer import Point, dist, Transformation
    p, q = _finite(ctx, _nz(ctx, vec(ctx, "p", 3))), _finite(ctx, _nz(ctx, vec(ctx, "q", 3)))
    if ctx.symbolic:
        from symgeo.trig import new_angle, angle_cs
        th = new_angle("theta")
        c, s = angle_cs(th)
    else:
        t = ctx.real("theta")
        c, s = math.cos(t), math.sin(t)
    vx, vy = ctx.real("vx"), ctx.real("vy")
    T = Transformation(mk_array(ctx, [[c, -s, vx], [s, c, vy], [0, 0, 1]]))
    d0 = dist(Point(p), Point(q))
    d1 = dist(T * Point(p), T * Point(q))
    if _is_special(ctx, d0) or _is_special(ctx, d1):
        return
    ctx.require("dist:isometry-invariant", ctx.eq(d0, d1))


def custom_dist_3d_polytopes(tier, seed):
    """supplementary, NOT a solver verdict (3-D distances go through the SVD contract stub and are undecided symbolically): concrete evaluation of
    dist(point, convex polygon in 3-space / cuboid) on a lattice of points against an independent numpy oracle (clamped projections)"""
    import itertools
    import time
    from geometer import Polygon, Point, Cuboid, dist, translation, rotation
    t0 = time.time()
    res = {"paths": 0, "forks": 0, "obligations": 0, "ob_total": 0, "violations": [], "inconclusive": [], "samples": [], "by_step": {"evaluated": 0},
           "outcomes": {}, "reach": {}, "validated": 0, "solver_time": 0.0}

    def seg_d(a, b, q):
        ab = b - a
        t = min(1.0, max(0.0, float(np.dot(q - a, ab) / np.dot(ab, ab))))
        return float(np.linalg.norm(a + t * ab - q))

    def poly_d(V, q):
        V = [np.asarray(v, float) for v in V]
        n = np.cross(V[1] - V[0], V[2] - V[0])
        n = n / np.linalg.norm(n)
        off = float(np.dot(q - V[0], n))
        f = q - off * n
        inside = all(np.dot(np.cross(V[(i + 1) % len(V)] - V[i], f - V[i]), n) >= -1e-12 for i in range(len(V)))
        if inside:
            return abs(off)
        return min(seg_d(V[i], V[(i + 1) % len(V)], q) for i in range(len(V)))
    polys = {
        "rect-in-plane-y=3": [(-1, 3, -1), (1, 3, -1), (1, 3, 1), (-1, 3, 1)],
        "rect-in-plane-z=-5": [(0, 0, -5), (2, 0, -5), (2, 1, -5), (0, 1, -5)],
        "triangle-in-plane-x+y+z=6": [(6, 0, 0), (0, 6, 0), (0, 0, 6)],
        "triangle-through-origin": [(0, 0, 0), (4, 0, 0), (0, 4, 0)],
    }
    objs = []
    for name, V in polys.items():
        objs.append((name, Polygon(*[Point(*v) for v in V]), [np.array(v, float) for v in V]))
    # images under rigid motions that move the supporting plane
    V = polys["triangle-through-origin"]
    objs.append(("translated-triangle", translation(0, 0, 2) * Polygon(*[Point(*v) for v in V]), [np.array(v, float) + np.array([0, 0, 2.0]) for v in V]))
    objs.append(("shifted-triangle(+point)", Polygon(*[Point(*v) for v in V]) + Point(1, -1, 3), [np.array(v, float) + np.array([1, -1, 3.0]) for v in V]))
    pts = [q for q in itertools.product((-1, 0.5, 2, 5) if tier == "quick" else (-1, 0.5, 1, 2, 4, 5), repeat=3)]
    seen = set()
    for name, P, V in objs:
        for q in pts:
            res["ob_total"] += 1
            res["obligations"] += 1
            res["by_step"]["evaluated"] += 1
            bad = None
            try:
                d = float(dist(Point(*q), P))
                d2 = float(dist(P, Point(*q)))
                ref = poly_d(V, np.array(q, float))
                if not (abs(d - ref) <= 1e-7 * (1 + ref) and abs(d2 - ref) <= 1e-7 * (1 + ref)):
                    bad = f"dist(point,{name}):value"
            except Exception as e:
                bad = f"dist(point,{name}):{type(e).__name__}"
            if bad and bad not in seen:
                seen.add(bad)
                res["violations"].append({"case": "dist_3d_polytopes_lattice", "obligation": bad, "env": {"q": str(q)}, "replay": {"failed": [bad]}})
    cube = Cuboid(Point(0, 0, 0), Point(2, 0, 0), Point(0, 2, 0), Point(0, 0, 2))
    for q in pts:
        res["ob_total"] += 1
        res["obligations"] += 1
        res["by_step"]["evaluated"] += 1
        qq = np.array(q, float)
        inside = bool(np.all(qq >= 0) and np.all(qq <= 2))
        ref = float(np.min(np.concatenate([qq, 2 - qq]))) if inside else float(np.linalg.norm(qq - np.clip(qq, 0, 2)))   # distance to the surface
        bad = None
        try:
            d = float(dist(Point(*q), cube))
            if abs(d - ref) > 1e-7 * (1 + ref):
                bad = "dist(point,cuboid):value"
        except Exception as e:
            bad = f"dist(point,cuboid):{type(e).__name__}"
        if bad and bad not in seen:
            seen.add(bad)
            res["violations"].append({"case": "dist_3d_polytopes_lattice", "obligation": bad, "env": {"q": str(q)}, "replay": {"failed": [bad]}})
    res["paths"] = res["ob_total"]
    res["samples"].append({"case": "dist_3d_polytopes_lattice", "verdict": "concrete evaluation against a numpy oracle (supplementary, outside the solver claim)", "objects": [n for n, _, _ in objs] + ["cuboid"], "points": len(pts)})
    res["wall"] = time.time() - t0
    return res


def custom_dist_planes(tier, seed):
    """supplementary concrete evaluation: distance of parallel planes / plane and parallel line (3-D, SVD stub undecided symbolically)"""
    import time
    from geometer import Plane, Line, Point, dist, PlaneCollection
    t0 = time.time()
    res = {"paths": 0, "forks": 0, "obligations": 0, "ob_total": 0, "violations": [], "inconclusive": [], "samples": [], "by_step": {"evaluated": 0},
           "outcomes": {}, "reach": {}, "validated": 0, "solver_time": 0.0}
    seen = set()
    normals = [(0, 0, 1), (1, 2, 2), (-2, 1, 2), (3, 0, -4), (1, -1, 0)]
    for n in normals:
        nn = float(np.linalg.norm(n))
        for d1, d2, lam in ((0, -3, 1), (2, 5, -2), (-9, 3, 0.5), (1, 1.5, 3)):
            res["ob_total"] += 1
            res["obligations"] += 1
            res["by_step"]["evaluated"] += 1
            bad = None
            try:
                e, f = Plane(*n, d1), Plane(*[lam * x for x in n], lam * d2)
                ref = abs(d1 - d2) / nn
                a, b = float(dist(e, f)), float(dist(f, e))
                if abs(a - ref) > 1e-7 * (1 + ref) or abs(b - ref) > 1e-7 * (1 + ref):
                    bad = "dist(plane,plane):value"
                C = PlaneCollection([f.array, e.array])
                c = dist(e, C)
                if abs(float(c[0]) - ref) > 1e-7 * (1 + ref) or abs(float(c[1])) > 1e-7:
                    bad = bad or "dist(plane,plane-collection):value"
            except RecursionError:
                bad = "dist(plane,plane):RecursionError"
            except Exception as ex:
                bad = f"dist(plane,plane):{type(ex).__name__}"
            if bad and bad not in seen:
                seen.add(bad)
                res["violations"].append({"case": "dist_planes_lattice", "obligation": bad, "env": {"n": str(n), "d1": str(d1), "d2": str(d2)}, "replay": {"failed": [bad]}})
    res["paths"] = res["ob_total"]
    res["wall"] = time.time() - t0
    return res


def cases(tier, seed):
    Q, T = ("quick", "thorough"), ("thorough",)
    cs = []

    def add(name, fn, **kw):
        cs.append(Case(name, fn, setup=_setup, **kw))
    add("dist_pp_2d", mk_dist_pp(2), tiers=Q)
    A = ("attempt",)   # attempted, not decided within budget on the unchanged tree: outside the claim (./check C09 --tier attempt)
    add("dist_pp_3d_affine", mk_dist_pp(3, affine=True), tiers=A, max_paths=2000)
    add("dist_pp_3d", mk_dist_pp(3), tiers=A, max_paths=2000)
    for k, lp in enumerate([(0, 0, 0, 1), (1, 2, -1, 1), (3, 0, -2, 2)]):
        add(f"dist_pp_3d_lattice{k}", mk_dist_pp(3, lattice_p=lp), tiers=A, max_paths=2000)
    add("dist_pl_2d", case_dist_pl, tiers=Q, max_paths=2000)
    add("dist_pe_3d", case_dist_pe, tiers=("attempt",), max_paths=2000)
    add("angle_ppp_2d", case_angle_ppp, tiers=Q, max_paths=2000)
    add("angle_ll_2d", case_angle_ll, tiers=Q, max_paths=2000)
    add("segment_length_2d", case_segment_length, tiers=Q)
    add("angle_3d_lattice", case_angle_3d_lattice, tiers=Q, max_paths=2000)
    for k in range(3):
        add(f"dist_point_segment{k}", mk_dist_point_segment(k), tiers=Q, max_paths=2000)
    add("angle_ppp_3d", case_angle_ppp_3d, tiers=("attempt",), max_paths=2000)
    add("dist_isometry_2d", case_isometry_invariance, tiers=Q)
    cs.append(Case("dist_3d_polytopes_lattice", custom_dist_3d_polytopes, kind="custom"))
    cs.append(Case("dist_planes_lattice", custom_dist_planes, kind="custom"))
    return cs
