"""C12 - queries are pure: one inductive step from an arbitrary symbolic state, per public operation, on every path."""
from __future__ import annotations

import numpy as np

from symgeo.driver import Case
from symgeo import refgeo as R
from harness.common import vec, E, line3_from_points
from harness.tr import mk_array

EVIDENCE = {
    "functions": ["every operation listed under coverage.cases (public functions, methods, properties and operators of points, lines, planes, quadrics, transformations, "
                  "segments, polygons and their collections)"],
    "bounds": "one step (any sequence follows by induction: the state after a step is again an arbitrary state of the same shape, and every operation is a deterministic "
              "function of the state); pool: single objects and collections of length 2, polygons with 4 vertices, 2-D and 3-D; all coordinates free reals; every path of "
              "each operation is checked",
    "outside": "operations not in the list; collections longer than 2; mutation through objects not reachable from the arguments, the module constants or the epsilon/delta caches",
    "assumptions": ["ProjectiveTensor.__eq__ uses the is_multiple lemma (C20) to limit forks", "state = identity and contents of .array, ._line/._plane (and their arrays), index sets, "
                    "__dict__ keys of every argument + I, J, infty, infty_plane, absolute_conic + LeviCivitaTensor._cache / KroneckerDelta._cache"],
}


def _setup():
    from symgeo.lemmas import use_is_multiple_lemma
    use_is_multiple_lemma(True)


def _plain(a):
    return a.plain if hasattr(a, "plain") else np.asarray(a)


def snapshot(objs):
    import geometer
    from geometer.base import LeviCivitaTensor, KroneckerDelta
    from geometer.curve import absolute_conic
    snap = {}

    def add(name, o, depth=0):
        arr = getattr(o, "array", None)
        if arr is None:
            return
        p = _plain(arr)
        snap[name] = {"id": id(arr), "shape": p.shape, "elems": list(p.reshape(-1)), "cov": set(o._covariant_indices), "con": set(o._contravariant_indices),
                      "keys": sorted(o.__dict__.keys()), "obj": o, "extra": {k: v for k, v in o.__dict__.items() if k in ("is_dual", "pdim")}}
        if depth < 2:
            for attr in ("_line", "_plane"):
                sub = o.__dict__.get(attr)
                if sub is not None:
                    snap[name]["sub_" + attr] = id(sub)
                    add(name + "." + attr, sub, depth + 1)
    for k, o in objs.items():
        add(k, o)
    for k, o in (("I", geometer.I), ("J", geometer.J), ("infty", geometer.infty), ("infty_plane", geometer.infty_plane), ("absolute_conic", absolute_conic)):
        add("const:" + k, o)
    caches = {}
    for cls in (LeviCivitaTensor, KroneckerDelta):
        for key, arr in cls._cache.items():
            caches[(cls.__name__, key)] = (id(arr), np.array(arr, copy=True) if not hasattr(arr, "plain") else None)
    snap["__caches__"] = caches
    return snap


def compare(ctx, tag, before):
    from geometer.base import LeviCivitaTensor, KroneckerDelta
    for name, b in before.items():
        if name == "__caches__":
            for (cn, key), (i, copy) in b.items():
                cls = LeviCivitaTensor if cn == "LeviCivitaTensor" else KroneckerDelta
                cur = cls._cache.get(key)
                ctx.require(f"{tag}:cache[{cn}{key}]:same-object", cur is not None and id(cur) == i)
                if copy is not None and cur is not None and not hasattr(cur, "plain"):
                    ctx.require(f"{tag}:cache[{cn}{key}]:unchanged", bool(np.array_equal(cur, copy)))
            continue
        o = b["obj"]
        arr = o.__dict__.get("array")
        ctx.require(f"{tag}:{name}:same-array-object", arr is not None and id(arr) == b["id"])
        ctx.require(f"{tag}:{name}:index-sets", set(o._covariant_indices) == b["cov"] and set(o._contravariant_indices) == b["con"])
        ctx.require(f"{tag}:{name}:attributes", sorted(o.__dict__.keys()) == b["keys"] and {k: v for k, v in o.__dict__.items() if k in ("is_dual", "pdim")} == b["extra"])
        for attr in ("_line", "_plane"):
            if "sub_" + attr in b:
                ctx.require(f"{tag}:{name}:{attr}-same-object", id(o.__dict__.get(attr)) == b["sub_" + attr])
        if arr is None:
            continue
        p = _plain(arr)
        ctx.require(f"{tag}:{name}:shape", p.shape == b["shape"])
        if p.shape != b["shape"]:
            continue
        for k, (x, y) in enumerate(zip(list(p.reshape(-1)), b["elems"])):
            if x is y:
                continue
            ctx.require(f"{tag}:{name}:element[{k}]-unchanged", ctx.eq(x, y))


# ------------------------------------------------------------------ pools

def pool2d(ctx):
    from geometer import Point, Line, Quadric, Transformation, Segment, Polygon, PointCollection, LineCollection
    def nz(v):
        ctx.assume(R.nonzero(ctx, E(v)))
        return v
    pool = {}
    pool["p"] = Point(nz(vec(ctx, "p", 3)))
    pool["q"] = Point(nz(vec(ctx, "q", 3)))
    pool["l"] = Line(nz(vec(ctx, "l", 3)))
    pool["m"] = Line(nz(vec(ctx, "m", 3)))
    return pool


def mk_op(dim, build, op, name):
    def case(ctx):
        pool = build(ctx)
        before = snapshot(pool)
        try:
            op(pool)
            ctx.outcome("returned")
        except Exception as e:   # purity is required on raising paths as well
            from symgeo.state import UnsupportedSymbolic
            if isinstance(e, UnsupportedSymbolic):
                raise
            ctx.outcome("raised:" + type(e).__name__)
        compare(ctx, name, before)
    return case


def _pts(ctx, names, n):
    from geometer import Point
    out = {}
    for k in names:
        v = vec(ctx, k, n)
        ctx.assume(R.nonzero(ctx, E(v)))
        out[k] = Point(v)
    return out


def b_points2(ctx):
    return _pts(ctx, "pq", 3)


def b_points3(ctx):
    return _pts(ctx, "pqr", 3)


def b_points4(ctx):
    return _pts(ctx, "pqrs", 3)


def b_lines2(ctx):
    from geometer import Line
    out = {}
    for k in "lm":
        v = vec(ctx, k, 3)
        ctx.assume(R.nonzero(ctx, E(v)))
        out[k] = Line(v)
    return out


def b_point_line(ctx):
    d = _pts(ctx, "p", 3)
    d.update({k: v for k, v in b_lines2(ctx).items() if k == "l"})
    return d


def b_conic_line_point(ctx):
    from geometer import Conic
    s = ctx.reals("s", 3, 3)
    S = R.mat(s)
    rows = [[S[min(i, j)][max(i, j)] for j in range(3)] for i in range(3)]
    d = b_point_line(ctx)
    d["c"] = Conic(mk_array(ctx, rows))
    return d


def b_transform_objs(ctx):
    from geometer import Transformation
    d = b_point_line(ctx)
    t = ctx.reals("t", 3, 3)
    ctx.assume(ctx.neg(ctx.is_zero(R.det(R.mat(t)))))
    d["t"] = Transformation(t)
    return d


def b_segment_point(ctx):
    from geometer import Segment, Point
    a, b = vec(ctx, "a", 3), vec(ctx, "b", 3)
    ctx.assume(ctx.neg(R.rank_deficient(ctx, [E(a), E(b)])))
    d = {"s": Segment(Point(a), Point(b))}
    d.update(_pts(ctx, "p", 3))
    d.update({k: v for k, v in b_lines2(ctx).items() if k == "l"})
    return d


def b_polygon_point(ctx):
    from geometer import Polygon, Point
    verts = [[0, 0, 1], [3, 0, 1], [3, 2, 1], [0, 2, 1]]
    vs = []
    for i, v in enumerate(verts):
        # symbolic perturbation of a rectangle keeps the polygon simple for small parameters; coordinates stay free reals
        w = ctx.reals(f"v{i}", 3)
        ctx.assume(R.nonzero(ctx, E(w)))
        vs.append(Point(w))
    d = {"poly": Polygon(*vs)}
    d.update(_pts(ctx, "p", 3))
    return d


def b_triangle_point(ctx):
    """triangle with free real vertices (free weights: the path on which every weight is exactly 1, where normalized_array returns the
    operand's own array, is one of the explored paths) and a free point"""
    from geometer import Triangle, Point
    vs = []
    for i in range(3):
        w = ctx.reals(f"v{i}", 3)
        ctx.assume(R.nonzero(ctx, E(w)))
        vs.append(Point(w))
    ctx.assume(ctx.neg(R.rank_deficient(ctx, [E(v.array) for v in vs])))
    d = {"tri": Triangle(*vs)}
    d.update(_pts(ctx, "p", 3))
    return d


def b_collections2(ctx):
    from geometer import PointCollection, LineCollection
    P, L = ctx.reals("P", 2, 3), ctx.reals("L", 2, 3)
    for i in range(2):
        ctx.assume(R.nonzero(ctx, E(P[i])))
        ctx.assume(R.nonzero(ctx, E(L[i])))
    return {"P": PointCollection(P), "L": LineCollection(L)}


def b_3d_basic(ctx):
    from geometer import Point, Plane
    d = _pts(ctx, "pq", 4)
    e = vec(ctx, "e", 4)
    ctx.assume(R.nonzero(ctx, E(e)))
    d["e"] = Plane(e)
    a, b = vec(ctx, "a", 4), vec(ctx, "b", 4)
    ctx.assume(ctx.neg(R.rank_deficient(ctx, [E(a), E(b)])))
    d["g"] = line3_from_points(ctx, a, b)
    return d


def b_polycoll3d(ctx):
    """two quadrilaterals in the planes z = h_k (h_k free reals: plane through the origin iff h_k = 0), sheared by a free parameter"""
    from geometer import PolygonCollection
    polys = []
    for k in range(2):
        h, sx = ctx.real(f"h{k}"), ctx.real(f"sx{k}")
        polys.append([[0, 0, h, 1], [2 + sx, 0, h, 1], [2 + sx, 1, h, 1], [0, 1, h, 1]])
        ctx.assume(ctx.neg(ctx.is_zero(2 + sx)))
    arr = mk_array(ctx, polys)
    d = {"pc": PolygonCollection(arr)}
    d.update(_pts(ctx, "p", 4))
    return d


def b_polygon3d(ctx):
    from geometer import Polygon, Point
    a, b, c = (vec(ctx, n, 4) for n in "abc")
    ctx.assume(ctx.neg(R.rank_deficient(ctx, [E(a), E(b), E(c)])))
    la, mu, nu = ctx.real("la"), ctx.real("mu"), ctx.real("nu")
    dd = [la * x + mu * y + nu * z for x, y, z in zip(E(a), E(b), E(c))]
    ctx.assume(R.nonzero(ctx, dd))
    d = {"poly": Polygon(Point(a), Point(b), Point(c), Point(mk_array(ctx, dd)))}
    d.update(_pts(ctx, "p", 4))
    return d


def ops():
    import geometer as g
    from geometer import join, meet, dist, angle, crossratio, harmonic_set, is_collinear, is_perpendicular, angle_bisectors, is_cocircular
    Q, T = ("quick", "thorough"), ("thorough",)
    o = []

    def add(name, build, fn, tiers=Q, **kw):
        o.append((name, build, fn, dict(tiers=tiers, **kw)))
    # ---- 2-D points / lines
    add("join(p,q)", b_points2, lambda s: join(s["p"], s["q"]))
    add("meet(l,m)", b_lines2, lambda s: meet(s["l"], s["m"]))
    add("p==q", b_points2, lambda s: s["p"] == s["q"])
    add("p+q", b_points2, lambda s: s["p"] + s["q"])
    add("p-q", b_points2, lambda s: s["p"] - s["q"])
    add("2*p", b_points2, lambda s: 2 * s["p"])
    add("p/2", b_points2, lambda s: s["p"] / 2)
    add("p.normalized_array", b_points2, lambda s: s["p"].normalized_array)
    add("p.isinf", b_points2, lambda s: s["p"].isinf)
    add("p.isreal", b_points2, lambda s: s["p"].isreal)
    add("repr(p)", b_points2, lambda s: repr(s["p"]), max_paths=600)
    add("l.contains(p)", b_point_line, lambda s: s["l"].contains(s["p"]))
    add("l.is_parallel(m)", b_lines2, lambda s: s["l"].is_parallel(s["m"]))
    add("l.parallel(p)", b_point_line, lambda s: s["l"].parallel(s["p"]))
    add("l.perpendicular(p)", b_point_line, lambda s: s["l"].perpendicular(s["p"]), max_paths=800)
    add("l.project(p)", b_point_line, lambda s: s["l"].project(s["p"]), max_paths=800)
    add("l.mirror(p)", b_point_line, lambda s: s["l"].mirror(s["p"]))
    add("l.base_point", b_point_line, lambda s: s["l"].base_point)
    add("l.direction", b_point_line, lambda s: s["l"].direction)
    add("l.basis_matrix", b_point_line, lambda s: s["l"].basis_matrix)
    add("l.general_point", b_point_line, lambda s: s["l"].general_point)
    add("l+p", b_point_line, lambda s: s["l"] + s["p"])
    add("dist(p,q)", b_points2, lambda s: dist(s["p"], s["q"]))
    add("dist(p,l)", b_point_line, lambda s: dist(s["p"], s["l"]), max_paths=800)
    add("angle(p,q,r)", b_points3, lambda s: angle(s["p"], s["q"], s["r"]), tiers=T)
    add("angle(l,m)", b_lines2, lambda s: angle(s["l"], s["m"]), tiers=T)
    add("is_perpendicular(l,m)", b_lines2, lambda s: is_perpendicular(s["l"], s["m"]))
    add("is_collinear(p,q,r)", b_points3, lambda s: is_collinear(s["p"], s["q"], s["r"]))
    add("is_collinear(p,q,r,s)", b_points4, lambda s: is_collinear(s["p"], s["q"], s["r"], s["s"]))
    add("crossratio(p,q,r,s)", b_points4, lambda s: crossratio(s["p"], s["q"], s["r"], s["s"]))
    add("harmonic_set(p,q,r)", b_points3, lambda s: harmonic_set(s["p"], s["q"], s["r"]), tiers=T)
    # ---- conics
    add("c.contains(p)", b_conic_line_point, lambda s: s["c"].contains(s["p"]))
    add("c.polar(p)", b_conic_line_point, lambda s: s["c"].polar(s["p"]))
    add("c.is_degenerate", b_conic_line_point, lambda s: s["c"].is_degenerate)
    add("c.dual", b_conic_line_point, lambda s: s["c"].dual)
    add("c.is_tangent(l)", b_conic_line_point, lambda s: s["c"].is_tangent(s["l"]))
    add("c.intersect(l)", b_conic_line_point, lambda s: s["c"].intersect(s["l"]), tiers=T)
    add("c+p", b_conic_line_point, lambda s: s["c"] + s["p"])
    # ---- transformations
    add("t*p", b_transform_objs, lambda s: s["t"] * s["p"])
    add("t*l", b_transform_objs, lambda s: s["t"] * s["l"])
    add("t.inverse()", b_transform_objs, lambda s: s["t"].inverse())
    add("t**2", b_transform_objs, lambda s: s["t"] ** 2)
    add("t**-1", b_transform_objs, lambda s: s["t"] ** -1)
    add("t*t", b_transform_objs, lambda s: s["t"] * s["t"])
    # ---- segments / polygons 2-D
    add("s.contains(p)", b_segment_point, lambda s: s["s"].contains(s["p"]))
    add("s.intersect(l)", b_segment_point, lambda s: s["s"].intersect(s["l"]))
    add("s.midpoint", b_segment_point, lambda s: s["s"].midpoint, tiers=T)
    add("s.length", b_segment_point, lambda s: s["s"].length)
    add("s.vertices", b_segment_point, lambda s: s["s"].vertices)
    add("s==s", b_segment_point, lambda s: s["s"] == s["s"])
    add("s+p", b_segment_point, lambda s: s["s"] + s["p"])
    add("poly.area", b_polygon_point, lambda s: s["poly"].area)
    add("poly.edges", b_polygon_point, lambda s: s["poly"].edges)
    add("poly.vertices", b_polygon_point, lambda s: s["poly"].vertices)
    add("poly.centroid", b_polygon_point, lambda s: s["poly"].centroid)
    add("poly.contains(p)", b_polygon_point, lambda s: s["poly"].contains(s["p"]), tiers=T, max_paths=3000)
    add("tri.contains(p)", b_triangle_point, lambda s: s["tri"].contains(s["p"]), max_paths=3000)
    add("tri.area", b_triangle_point, lambda s: s["tri"].area)
    add("tri.volume", b_triangle_point, lambda s: s["tri"].volume)
    add("tri.circumcenter", b_triangle_point, lambda s: s["tri"].circumcenter, tiers=T, max_paths=3000)
    add("tri.edges", b_triangle_point, lambda s: s["tri"].edges)
    add("poly==poly", b_polygon_point, lambda s: s["poly"] == s["poly"])
    add("poly+p", b_polygon_point, lambda s: s["poly"] + s["p"])
    # ---- collections 2-D
    add("P.join(P)", b_collections2, lambda s: join(s["P"], s["P"][::-1]))
    add("L.contains(P)", b_collections2, lambda s: s["L"].contains(s["P"]))
    add("P[0]", b_collections2, lambda s: s["P"][0])
    add("iter(P)", b_collections2, lambda s: list(s["P"]))
    add("L.base_point", b_collections2, lambda s: s["L"].base_point)
    add("L.direction", b_collections2, lambda s: s["L"].direction)
    add("L.meet(L)", b_collections2, lambda s: meet(s["L"], s["L"][::-1]))
    add("P+P", b_collections2, lambda s: s["P"] + s["P"])
    add("P.normalized_array", b_collections2, lambda s: s["P"].normalized_array)
    # ---- 3-D
    add("join(p,q)3d", b_3d_basic, lambda s: join(s["p"], s["q"]))
    add("join(g,p)3d", b_3d_basic, lambda s: join(s["g"], s["p"]))
    add("meet(e,g)3d", b_3d_basic, lambda s: meet(s["e"], s["g"]))
    add("e.contains(p)", b_3d_basic, lambda s: s["e"].contains(s["p"]))
    add("e.contains(g)", b_3d_basic, lambda s: s["e"].contains(s["g"]))
    add("g.covariant_tensor", b_3d_basic, lambda s: s["g"].covariant_tensor)
    add("e.perpendicular(p)", b_3d_basic, lambda s: s["e"].perpendicular(s["p"]))
    add("e.parallel(p)", b_3d_basic, lambda s: s["e"].parallel(s["p"]))
    add("e.project(p)", b_3d_basic, lambda s: s["e"].project(s["p"]))
    add("g.direction", b_3d_basic, lambda s: s["g"].direction)
    add("e.isinf", b_3d_basic, lambda s: s["e"].isinf)
    add("e+p", b_3d_basic, lambda s: s["e"] + s["p"])
    add("poly3d.area", b_polygon3d, lambda s: s["poly"].area, tiers=T)
    add("poly3d._normalized_projection", b_polygon3d, lambda s: s["poly"]._normalized_projection(), tiers=T)
    add("pc._normalized_projection", b_polycoll3d, lambda s: s["pc"]._normalized_projection(), max_paths=600)
    add("pc.area", b_polycoll3d, lambda s: s["pc"].area, tiers=T)
    add("pc.vertices", b_polycoll3d, lambda s: s["pc"].vertices)
    add("pc.edges", b_polycoll3d, lambda s: s["pc"].edges)
    add("pc[0]", b_polycoll3d, lambda s: s["pc"][0])
    # ---- constructors taking geometric objects (round 4): building a transformation / quadric / polytope from objects must not change them
    from geometer import translation, rotation, scaling, reflection, Transformation, Circle, Sphere, Conic, Segment, Polygon, Line

    def _ang(s):
        return 0.75

    add("translation(p)", b_points2, lambda s: translation(s["p"]))
    add("translation(p)3d", b_3d_basic, lambda s: translation(s["p"]))
    add("rotation(a,axis=p)3d", b_3d_basic, lambda s: rotation(_ang(s), axis=s["p"]), max_paths=800)
    add("reflection(l)", b_point_line, lambda s: reflection(s["l"]))
    add("reflection(e)3d", b_3d_basic, lambda s: reflection(s["e"]))
    add("Circle(p,2)", b_points2, lambda s: Circle(s["p"], 2))
    add("Sphere(p,2)3d", b_3d_basic, lambda s: Sphere(s["p"], 2))
    add("Segment(p,q)", b_points2, lambda s: Segment(s["p"], s["q"]))
    add("Line(p,q)", b_points2, lambda s: Line(s["p"], s["q"]))
    add("Polygon(p,q,r)", b_points3, lambda s: Polygon(s["p"], s["q"], s["r"]))
    add("Conic.from_lines(l,m)", b_lines2, lambda s: Conic.from_lines(s["l"], s["m"]))
    add("t.apply-chain", b_transform_objs, lambda s: (s["t"] * s["p"], s["t"].inverse() * s["p"]))
    return o


def cases(tier, seed):
    return [Case(name, mk_op(0, build, fn, name), setup=_setup, **kw) for name, build, fn, kw in ops()]
