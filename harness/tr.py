"""transformation harnesses shared by C06 (group action) and C07 (incidence / commutes with join & meet)"""
from __future__ import annotations

import itertools

import numpy as np

from symgeo import refgeo as R
from harness.common import vec, E, eps4_pq, wedge, plane3, flat, line3_from_points


def mk_array(ctx, rows):
    if ctx.symbolic:
        from symgeo.symarr import to_sym
        return to_sym(rows)
    return np.array(rows, dtype=float)


def sym_matrix(ctx, name, n, affine=False):
    """(n x n array, list-of-lists) with free real entries; affine: last row (0..0 1)"""
    if not affine:
        a = ctx.reals(name, n, n)
        return a, R.mat(a)
    top = ctx.reals(name, n - 1, n)
    rows = R.mat(top) + [[0] * (n - 1) + [1]]
    return mk_array(ctx, rows), rows


def transformation(ctx, name, n, affine=False):
    from geometer import Transformation
    a, M = sym_matrix(ctx, name, n, affine)
    ctx.assume(ctx.neg(ctx.is_zero(R.det(M))))
    return Transformation(a), M


def objects(ctx, kind, dim):
    """returns (geometer object, descriptor) for a symbolic object of the given kind"""
    from geometer import Point, Line, Plane, Quadric, Segment, Polygon, PointCollection, LineCollection, Polyhedron, Triangle
    n = dim + 1
    if kind == "point":
        return Point(vec(ctx, "x", n))
    if kind == "hyper":
        return (Line if dim == 2 else Plane)(vec(ctx, "h", n))
    if kind == "line3":
        return line3_from_points(ctx, vec(ctx, "a", 4), vec(ctx, "b", 4))
    if kind == "line3cov":
        return line3_from_points(ctx, vec(ctx, "a", 4), vec(ctx, "b", 4)).covariant_tensor
    if kind in ("quadric", "dualquadric"):
        s = ctx.reals("q", n, n)
        S = R.mat(s)
        rows = [[S[min(i, j)][max(i, j)] for j in range(n)] for i in range(n)]
        return Quadric(mk_array(ctx, rows), is_dual=(kind == "dualquadric"))
    if kind == "points_c2":
        return PointCollection(ctx.reals("X", 2, n))
    if kind == "hyper_c2":
        from geometer import PlaneCollection
        return (LineCollection if dim == 2 else PlaneCollection)(ctx.reals("H", 2, n))
    if kind == "segment":
        return Segment(Point(vec(ctx, "a", n)), Point(vec(ctx, "b", n)))
    if kind == "triangle":
        return Triangle(Point(vec(ctx, "a", n)), Point(vec(ctx, "b", n)), Point(vec(ctx, "c", n)))
    if kind == "polygon4":
        if dim == 2:
            return Polygon(*[Point(vec(ctx, k, n)) for k in "abcd"])
        # 4th vertex in the plane of the first three
        a, b, c = (vec(ctx, k, n) for k in "abc")
        la, mu, nu = ctx.real("la"), ctx.real("mu"), ctx.real("nu")
        d = mk_array(ctx, [la * x + mu * y + nu * z for x, y, z in zip(E(a), E(b), E(c))])
        return Polygon(Point(a), Point(b), Point(c), Point(d))
    raise ValueError(kind)


def arrays_of(obj):
    """list of (tag, flat element list) that must agree projectively: the coordinate array (per vertex for polytopes,
    per element for collections) and cached supporting line/plane"""
    out = []
    a = obj.array
    p = a.plain if hasattr(a, "plain") else np.asarray(a)
    tr = sum(obj.tensor_shape)
    if p.ndim == tr:
        out.append(("array", list(p.reshape(-1))))
    else:
        lead = p.shape[: p.ndim - tr]
        for idx in np.ndindex(*lead):
            out.append((f"array{list(idx)}", list(p[idx].reshape(-1))))
    for attr in ("_line", "_plane"):
        sub = getattr(obj, attr, None)
        if sub is not None:
            for t, e in arrays_of(sub):
                out.append((attr + "." + t, e))
    return out


def same_object(ctx, tag, x, y, prefix):
    ax, ay = arrays_of(x), arrays_of(y)
    ctx.require(f"{prefix}:{tag}:same-structure", [t for t, _ in ax] == [t for t, _ in ay])
    ctx.require(f"{prefix}:{tag}:same-class", type(x) is type(y) and x.tensor_shape == y.tensor_shape
                and getattr(x, "is_dual", None) == getattr(y, "is_dual", None) and getattr(x, "pdim", None) == getattr(y, "pdim", None))
    for (t, u), (_, v) in zip(ax, ay):
        ctx.require(f"{prefix}:{tag}:{t}", R.proj_equal(ctx, u, v))


def cached_consistent(ctx, tag, obj, prefix):
    """cached supporting line/plane of a polytope is the join of its own vertices"""
    sub = getattr(obj, "_line", None)
    if sub is not None:
        a, b = E(obj.array[0]), E(obj.array[1])
        S_ = R.mat(sub.array) if sub.array.ndim == 2 else None
        if S_ is None:
            ctx.require(f"{prefix}:{tag}:cached-line-through-vertices", ctx.all([ctx.is_zero(R.dot(E(sub.array), a)), ctx.is_zero(R.dot(E(sub.array), b))]))
        else:
            ctx.require(f"{prefix}:{tag}:cached-line-through-vertices", ctx.all([ctx.is_zero(z) for z in R.matvec(S_, a) + R.matvec(S_, b)]))
    sub = getattr(obj, "_plane", None)
    if sub is not None:
        vs = [E(obj.array[i]) for i in range(obj.array.shape[0])]
        ctx.require(f"{prefix}:{tag}:cached-plane-through-vertices", ctx.all([ctx.is_zero(R.dot(E(sub.array), v)) for v in vs]))
        ctx.require(f"{prefix}:{tag}:cached-plane-nonzero", R.nonzero(ctx, E(sub.array)))


# ------------------------------------------------------------------ C06

def mk_group(kind, dim, affine=False, what=("assoc", "identity", "inverse")):
    def case(ctx):
        from geometer import identity
        n = dim + 1
        x = objects(ctx, kind, dim)
        T, Mt = transformation(ctx, "t", n, affine)
        if "assoc" in what:
            S_, Ms = transformation(ctx, "s", n, affine)
            lhs = (S_ * T) * x
            rhs = S_ * (T * x)
            same_object(ctx, "assoc", lhs, rhs, "C06")
            cached_consistent(ctx, "assoc", lhs, "C06")
        if "identity" in what:
            same_object(ctx, "identity", identity(dim) * x, x, "C06")
        if "inverse" in what:
            y = T * x
            back = T.inverse() * y
            same_object(ctx, "inverse", back, x, "C06")
            cached_consistent(ctx, "image", y, "C06")
            ctx.require("C06:kind-preserved", type(y) is type(x) and getattr(y, "is_dual", None) == getattr(x, "is_dual", None)
                        and getattr(y, "pdim", None) == getattr(x, "pdim", None) and y.shape == x.shape)
    return case


def mk_pow(dim, k, collection=False, affine=False):
    def case(ctx):
        from geometer import identity, Transformation, TransformationCollection
        n = dim + 1
        if collection:
            a0, M0 = sym_matrix(ctx, "t", n, affine)
            a1, M1 = sym_matrix(ctx, "u", n, affine)
            ctx.assume(ctx.neg(ctx.is_zero(R.det(M0))))
            ctx.assume(ctx.neg(ctx.is_zero(R.det(M1))))
            T = TransformationCollection(np.stack([a0, a1]))
            mats = [M0, M1]
        else:
            T, M = transformation(ctx, "t", n, affine)
            mats = [M]
        P = T ** k
        ctx.require("C06:pow:class", type(P) is type(T))
        for i, M in enumerate(mats):
            base = M if k >= 0 else R.adjugate(M)
            ref = [[1 if r == c else 0 for c in range(n)] for r in range(n)]
            for _ in range(abs(k)):
                ref = R.matmul(base, ref)
            got = R.mat(P.array[i] if collection else P.array)
            ctx.require(f"C06:pow{k}[{i}]", R.proj_equal(ctx, flat(got), flat(ref)))
    return case


def case_compose_matrix(dim, affine=False):
    def case(ctx):
        n = dim + 1
        S_, Ms = transformation(ctx, "s", n, affine)
        T, Mt = transformation(ctx, "t", n, affine)
        C = S_ * T
        ctx.require("C06:compose:class", type(C) is type(T))
        ctx.require("C06:compose:matrix-product", R.proj_equal(ctx, flat(R.mat(C.array)), flat(R.matmul(Ms, Mt))))
        I = T.inverse() * T
        ctx.require("C06:inverse-composition-is-identity", R.proj_equal(ctx, flat(R.mat(I.array)), [1 if r == c else 0 for r in range(n) for c in range(n)]))
    return case


# ------------------------------------------------------------------ C07

def mk_point_image(dim, affine=False):
    def case(ctx):
        n = dim + 1
        T, M = transformation(ctx, "t", n, affine)
        x = objects(ctx, "point", dim)
        y = T * x
        ctx.require("C07:point-image=M.x", R.proj_equal(ctx, E(y), R.matvec(M, E(x))))
        X = objects(ctx, "points_c2", dim)
        Y = T * X
        for i in range(2):
            ctx.require(f"C07:collection-point-image[{i}]", R.proj_equal(ctx, E(Y.array[i]), R.matvec(M, E(X.array[i]))))
    return case


def mk_incidence(kind, dim, affine=False):
    """incidence is preserved: h.x = 0 <=> (T h).(T x) = 0, through the library's contains()"""
    def case(ctx):
        n = dim + 1
        T, M = transformation(ctx, "t", n, affine)
        x = objects(ctx, "point", dim)
        h = objects(ctx, kind, dim)
        before = h.contains(x)
        after = (T * h).contains(T * x)
        ctx.require(f"C07:{kind}:contains-preserved", ctx.iff(ctx.truth(before), ctx.truth(after)))
        # reference: transformed object annihilates M x exactly when the original annihilates x
        hx = T * h
        if kind == "hyper":
            ctx.require(f"C07:{kind}:image-incidence-reference", ctx.iff(ctx.is_zero(R.dot(E(hx), R.matvec(M, E(x)))), ctx.is_zero(R.dot(E(h), E(x)))))
        elif kind in ("quadric",):
            y = R.matvec(M, E(x))
            A2, A = R.mat(hx.array), R.mat(h.array)
            ctx.require(f"C07:{kind}:image-incidence-reference", ctx.iff(ctx.is_zero(R.dot(y, R.matvec(A2, y))), ctx.is_zero(R.dot(E(x), R.matvec(A, E(x))))))
    return case


def mk_commute(opname, dim, kinds, affine=False):
    """T*op(a,b,..) == op(T*a, T*b, ..)"""
    def case(ctx):
        from geometer import join, meet, Point, Line, Plane
        from geometer.exceptions import LinearDependenceError, NotCoplanar
        n = dim + 1
        T, M = transformation(ctx, "t", n, affine)
        args = []
        for i, k in enumerate(kinds):
            if k == "p":
                args.append(Point(vec(ctx, f"p{i}", n)))
            elif k == "h":
                args.append((Line if dim == 2 else Plane)(vec(ctx, f"h{i}", n)))
            elif k == "l":
                args.append(line3_from_points(ctx, vec(ctx, f"a{i}", 4), vec(ctx, f"b{i}", 4)))
        op = join if opname == "join" else meet
        try:
            r = op(*args)
        except (LinearDependenceError, NotCoplanar):
            ctx.outcome("degenerate")
            return
        lhs = T * r
        try:
            rhs = op(*[T * a for a in args])
        except (LinearDependenceError, NotCoplanar):
            ctx.require(f"C07:{opname}{kinds}:image-of-general-position-is-general", False)
            return
        same_object(ctx, f"{opname}{kinds}", lhs, rhs, "C07")
    return case


def mk_tangent_preserved(dim, affine=False):
    def case(ctx):
        n = dim + 1
        T, M = transformation(ctx, "t", n, affine)
        q = objects(ctx, "quadric", dim)
        ctx.assume(ctx.neg(ctx.is_zero(R.det(R.mat(q.array)))))
        h = objects(ctx, "hyper", dim)
        ctx.require("C07:is_tangent-preserved", ctx.iff(ctx.truth(q.is_tangent(h)), ctx.truth((T * q).is_tangent(T * h))))
    return case


def mk_crossratio_invariant(dim, affine=False, from_point=False):
    def case(ctx):
        from geometer import crossratio, Point
        n = dim + 1
        T, M = transformation(ctx, "t", n, affine)
        if from_point:
            pts = [Point(vec(ctx, k, 3)) for k in "abcd"]
            o = Point(vec(ctx, "o", 3))
            c1 = crossratio(*pts, o)
            c2 = crossratio(*[T * p for p in pts], T * o)
        else:
            a, b = vec(ctx, "a", n), vec(ctx, "b", n)
            ctx.assume(ctx.neg(R.rank_deficient(ctx, [E(a), E(b)])))
            pts = []
            for k in range(4):
                mu, xi = ctx.real(f"mu{k}"), ctx.real(f"xi{k}")
                pts.append(Point(mk_array(ctx, [mu * u + xi * v for u, v in zip(E(a), E(b))])))
            c1 = crossratio(*pts)
            c2 = crossratio(*[T * p for p in pts])
        if ctx.symbolic:
            from symgeo.alg import Alg
            s1 = getattr(Alg.of(c1), "special", None) if not hasattr(c1, "shape") or c1.shape == () else None
        ctx.require("C07:crossratio-invariant", ctx.eq(c1, c2))
    return case


def mk_polytope_vertices(kind, dim, affine=False):
    def case(ctx):
        n = dim + 1
        T, M = transformation(ctx, "t", n, affine)
        x = objects(ctx, kind, dim)
        y = T * x
        ctx.require("C07:polytope:class", type(y) is type(x))
        k = x.array.shape[0]
        for i in range(k):
            ctx.require(f"C07:{kind}:vertex[{i}]-is-image", R.proj_equal(ctx, E(y.array[i]), R.matvec(M, E(x.array[i]))))
        cached_consistent(ctx, kind, y, "C07")
    return case


def all_cases():
    Q, Tt = ("quick", "thorough"), ("thorough",)
    cs = []
    # --- C06
    for dim in (2, 3):
        aff3 = dim == 3
        for kind in ("point", "hyper", "quadric", "dualquadric", "points_c2", "hyper_c2", "segment", "triangle", "polygon4") + (("line3", "line3cov") if dim == 3 else ()):
            heavy = dim == 3 and kind in ("quadric", "dualquadric", "polygon4", "line3cov", "hyper_c2", "triangle")
            cs.append((f"group_{kind}_{dim}d" + ("_affine" if aff3 else ""), mk_group(kind, dim, affine=aff3), dict(tiers=Tt if heavy else Q)))
            if dim == 3:
                cs.append((f"group_{kind}_3d_general", mk_group(kind, 3, affine=False), dict(tiers=Tt)))
        cs.append((f"compose_{dim}d", case_compose_matrix(dim, affine=False), dict(tiers=Q)))
        for k in (-3, -2, -1, 0, 1, 2, 3):
            cs.append((f"pow{k}_{dim}d", mk_pow(dim, k, affine=(dim == 3 and k < 0)), dict(tiers=Q if abs(k) <= 2 else Tt)))
        for k in (-2, 0, 2):
            cs.append((f"pow{k}_{dim}d_coll", mk_pow(dim, k, collection=True, affine=(dim == 3)), dict(tiers=Q if dim == 2 else Tt)))
    # --- C07
    for dim in (2, 3):
        cs.append((f"point_image_{dim}d", mk_point_image(dim), dict(tiers=Q)))
        cs.append((f"incidence_hyper_{dim}d", mk_incidence("hyper", dim), dict(tiers=Q)))
        cs.append((f"incidence_quadric_{dim}d", mk_incidence("quadric", dim, affine=(dim == 3)), dict(tiers=Q)))
        cs.append((f"tangent_{dim}d", mk_tangent_preserved(dim, affine=(dim == 3)), dict(tiers=Q if dim == 2 else Tt)))
        cs.append((f"crossratio_line_{dim}d", mk_crossratio_invariant(dim), dict(tiers=Q)))
        cs.append((f"polytope_segment_{dim}d", mk_polytope_vertices("segment", dim), dict(tiers=Q)))
        cs.append((f"polytope_polygon4_{dim}d", mk_polytope_vertices("polygon4", dim, affine=(dim == 3)), dict(tiers=Q)))
    cs.append(("incidence_line3_3d", mk_incidence("line3", 3, affine=True), dict(tiers=Q)))
    cs.append(("crossratio_from_point_2d", mk_crossratio_invariant(2, from_point=True), dict(tiers=Q)))
    for opname, dim, kinds, tiers in (("join", 2, "pp", Q), ("meet", 2, "hh", Q), ("join", 3, "pp", Q), ("join", 3, "ppp", Q), ("meet", 3, "hh", Q),
                                      ("meet", 3, "hhh", Q), ("join", 3, "pl", Q), ("join", 3, "lp", Tt), ("meet", 3, "hl", Q), ("meet", 3, "lh", Tt)):
        cs.append((f"commute_{opname}_{kinds}_{dim}d", mk_commute(opname, dim, kinds, affine=(dim == 3 and "l" in kinds)), dict(tiers=tiers)))
    return cs
