"""transformation harnesses shared by C06 (group action) and C07 (incidence / commutes with join & meet)"""
from __future__ import annotations

import itertools

import numpy as np

from symgeo import refgeo as R
from harness.common import vec, E, eps4_pq, wedge, plane3, flat, line3_from_points


def mk_array(ctx, rows):
    if ctx.symbolic:
        from symgeo.symarr import to_sym
        return to_sym(rows)
    return np.array(rows, dtype=float)


def sym_matrix(ctx, name, n, affine=False):
    """(n x n array, list-of-lists) with free real entries; affine: last row (0..0 1)"""
    if not affine:
        a = ctx.reals(name, n, n)
        return a, R.mat(a)
    top = ctx.reals(name, n - 1, n)
    rows = R.mat(top) + [[0] * (n - 1) + [1]]
    return mk_array(ctx, rows), rows


CONCRETE = {3: [[2, 1, 0], [-1, 1, 3], [1, 0, 2]], 4: [[1, 2, 0, -1], [0, 1, 3, 2], [2, -1, 1, 0], [1, 0, -2, 3]]}


def transformation(ctx, name, n, affine=False, concrete=False):
    from geometer import Transformation
    if concrete:
        M = [list(r) for r in CONCRETE[n]]
        if affine:
            M[-1] = [0] * (n - 1) + [1]
        return Transformation(ctx.const(M, float)), M
    a, M = sym_matrix(ctx, name, n, affine)
    ctx.assume(ctx.neg(ctx.is_zero(R.det(M))))
    return Transformation(a), M


def objects(ctx, kind, dim):
    """returns (geometer object, descriptor) for a symbolic object of the given kind"""
    from geometer import Point, Line, Plane, Quadric, Segment, Polygon, PointCollection, LineCollection, Polyhedron, Triangle
    n = dim + 1

    def nz(v):
        ctx.assume(R.nonzero(ctx, E(v)))
        return v

    def indep(*vs):
        ctx.assume(ctx.neg(R.rank_deficient(ctx, [E(v) for v in vs])))
        return vs
    if kind == "point":
        return Point(nz(vec(ctx, "x", n)))
    if kind == "hyper":
        return (Line if dim == 2 else Plane)(nz(vec(ctx, "h", n)))
    if kind == "line3":
        return line3_from_points(ctx, *indep(vec(ctx, "a", 4), vec(ctx, "b", 4)))
    if kind == "line3cov":
        return line3_from_points(ctx, *indep(vec(ctx, "a", 4), vec(ctx, "b", 4))).covariant_tensor
    if kind in ("quadric", "dualquadric"):
        s = ctx.reals("q", n, n)
        S = R.mat(s)
        rows = [[S[min(i, j)][max(i, j)] for j in range(n)] for i in range(n)]
        ctx.assume(R.nonzero(ctx, flat(rows)))
        return Quadric(mk_array(ctx, rows), is_dual=(kind == "dualquadric"))
    if kind == "points_c2":
        X = ctx.reals("X", 2, n)
        nz(X[0]), nz(X[1])
        return PointCollection(X)
    if kind == "hyper_c2":
        from geometer import PlaneCollection
        H = ctx.reals("H", 2, n)
        nz(H[0]), nz(H[1])
        return (LineCollection if dim == 2 else PlaneCollection)(H)
    if kind == "hyper_c2x3":
        from geometer import PlaneCollection
        H = ctx.reals("H", 2, n)
        nz(H[0]), nz(H[1])
        rest = ctx.const([[1, 2, 0, -1][:n], [0, 1, 1, 2][:n], [2, -1, 3, 1][:n], [1, 1, -2, 0][:n]], float)
        grid = np.stack([np.stack([H[0], rest[0], rest[1]]), np.stack([rest[2], H[1], rest[3]])])
        return (LineCollection if dim == 2 else PlaneCollection)(grid)
    if kind == "segment":
        a, b = indep(vec(ctx, "a", n), vec(ctx, "b", n))
        return Segment(Point(a), Point(b))
    if kind == "triangle":
        a, b, c = indep(vec(ctx, "a", n), vec(ctx, "b", n), vec(ctx, "c", n))
        return Triangle(Point(a), Point(b), Point(c))
    if kind == "polygon4":
        if dim == 2:
            return Polygon(*[Point(nz(vec(ctx, k, n))) for k in "abcd"])
        # 4th vertex in the plane of the first three
        a, b, c = indep(*(vec(ctx, k, n) for k in "abc"))
        la, mu, nu = ctx.real("la"), ctx.real("mu"), ctx.real("nu")
        d = mk_array(ctx, [la * x + mu * y + nu * z for x, y, z in zip(E(a), E(b), E(c))])
        nz(d)
        return Polygon(Point(a), Point(b), Point(c), Point(d))
    raise ValueError(kind)


def arrays_of(obj):
    """list of (tag, flat element list) that must agree projectively: the coordinate array (per vertex for polytopes,
    per element for collections) and cached supporting line/plane"""
    out = []
    a = obj.array
    p = a.plain if hasattr(a, "plain") else np.asarray(a)
    tr = sum(obj.tensor_shape)
    if p.ndim == tr:
        out.append(("array", list(p.reshape(-1))))
    else:
        lead = p.shape[: p.ndim - tr]
        for idx in np.ndindex(*lead):
            out.append((f"array{list(idx)}", list(p[idx].reshape(-1))))
    for attr in ("_line", "_plane"):
        sub = getattr(obj, attr, None)
        if sub is not None:
            for t, e in arrays_of(sub):
                out.append((attr + "." + t, e))
    return out


def same_object(ctx, tag, x, y, prefix):
    ax, ay = arrays_of(x), arrays_of(y)
    ctx.require(f"{prefix}:{tag}:same-structure", [t for t, _ in ax] == [t for t, _ in ay])
    ctx.require(f"{prefix}:{tag}:same-class", type(x) is type(y) and x.tensor_shape == y.tensor_shape
                and getattr(x, "is_dual", None) == getattr(y, "is_dual", None) and getattr(x, "pdim", None) == getattr(y, "pdim", None))
    for (t, u), (_, v) in zip(ax, ay):
        # proportionality; that images of valid objects are non-zero is a separate obligation (mk_image_nonzero)
        ctx.require(f"{prefix}:{tag}:{t}", R.proportional(ctx, u, v))


def cached_consistent(ctx, tag, obj, prefix):
    """cached supporting line/plane of a polytope is the join of its own vertices"""
    sub = getattr(obj, "_line", None)
    if sub is not None:
        a, b = E(obj.array[0]), E(obj.array[1])
        S_ = R.mat(sub.array) if sub.array.ndim == 2 else None
        if S_ is None:
            ctx.require(f"{prefix}:{tag}:cached-line-through-vertices", ctx.all([ctx.is_zero(R.dot(E(sub.array), a)), ctx.is_zero(R.dot(E(sub.array), b))]))
        else:
            ctx.require(f"{prefix}:{tag}:cached-line-through-vertices", ctx.all([ctx.is_zero(z) for z in R.matvec(S_, a) + R.matvec(S_, b)]))
    sub = getattr(obj, "_plane", None)
    if sub is not None:
        vs = [E(obj.array[i]) for i in range(obj.array.shape[0])]
        ctx.require(f"{prefix}:{tag}:cached-plane-through-vertices", ctx.all([ctx.is_zero(R.dot(E(sub.array), v)) for v in vs]))
        ctx.require(f"{prefix}:{tag}:cached-plane-nonzero", R.nonzero(ctx, E(sub.array)))


# ------------------------------------------------------------------ C06

def mk_group(kind, dim, affine=False, what=("assoc", "identity", "inverse"), concrete_s=False):
    def case(ctx):
        from geometer.exceptions import LinearDependenceError, NotCoplanar
        try:
            return _case(ctx)
        except (LinearDependenceError, NotCoplanar):
            # only reachable if the image of an independent vertex triple were dependent: impossible for invertible maps, but
            # not decidable by the solver -> tagged, no obligation is derived from such a path
            ctx.outcome("image-degenerate(unreachable)")

    def _case(ctx):
        from geometer import identity
        n = dim + 1
        x = objects(ctx, kind, dim)
        T, Mt = transformation(ctx, "t", n, affine)
        if "assoc" in what:
            S_, Ms = transformation(ctx, "s", n, affine, concrete=concrete_s)
            lhs = (S_ * T) * x
            rhs = S_ * (T * x)
            same_object(ctx, "assoc", lhs, rhs, "C06")
            cached_consistent(ctx, "assoc", lhs, "C06")
        if "identity" in what:
            same_object(ctx, "identity", identity(dim) * x, x, "C06")
        if "inverse" in what:
            y = T * x
            back = T.inverse() * y
            same_object(ctx, "inverse", back, x, "C06")
            cached_consistent(ctx, "image", y, "C06")
            ctx.require("C06:kind-preserved", type(y) is type(x) and getattr(y, "is_dual", None) == getattr(x, "is_dual", None)
                        and getattr(y, "pdim", None) == getattr(x, "pdim", None) and y.shape == x.shape)
    return case


def mk_image_nonzero(kind, dim, affine=False):
    """T*x is a valid (non-zero) object when x is; hint: adj(M).(M x) = det(M) x"""
    def case(ctx):
        n = dim + 1
        T, M = transformation(ctx, "t", n, affine)
        x = objects(ctx, kind, dim)
        y = T * x
        xe, ye = E(x), E(y)
        if kind == "point":
            back = R.matvec(R.adjugate(M), ye)
            D = ctx.define("detM", R.det(M))
            # y = M x / u (u: normalisation unit, if any) -> adj(M) y * u = det(M) x ; use the proportional form
            for i in range(n):
                for j in range(i + 1, n):
                    ctx.lemma_by_unfolding(f"adj-back[{i}{j}]", back[i] * xe[j], back[j] * xe[i])
            ctx.require(f"C06:{kind}:image-nonzero", R.nonzero(ctx, ye))
        elif kind in ("segment", "triangle", "polygon4"):
            # every vertex of the image is a valid point (a vertex mapped to infinity stays a non-zero vector)
            for i in range(x.array.shape[0]):
                ctx.require(f"C06:{kind}:vertex[{i}]-image-nonzero", R.nonzero(ctx, E(y.array[i])))
        else:
            ctx.require(f"C06:{kind}:image-nonzero", R.nonzero(ctx, ye))
    return case


def case_grid_lattice(ctx):
    """a 2x3 grid (two collection axes) of lattice lines / planes under a lattice transformation: shape kept, every position is the image of its own element"""
    from geometer import LineCollection, PlaneCollection, Transformation
    for dim in (2, 3):
        n = dim + 1
        M = [list(r) for r in CONCRETE[n]]
        T = Transformation(ctx.const(M, float))
        rows = [[1, 2, 0, -1], [0, 1, 1, 2], [2, -1, 3, 1], [1, 1, -2, 0], [3, 0, 1, 1], [-1, 2, 2, 1]]
        grid = [[rows[0][:n], rows[1][:n], rows[2][:n]], [rows[3][:n], rows[4][:n], rows[5][:n]]]
        X = (LineCollection if dim == 2 else PlaneCollection)(ctx.const(grid, float))
        Y = T * X
        ctx.require(f"C06:grid{dim}d:shape-kept", tuple(Y.shape) == (2, 3, n))
        ctx.require(f"C06:grid{dim}d:class-kept", type(Y) is type(X))
        if tuple(Y.shape) != (2, 3, n):
            continue
        from fractions import Fraction
        C = R.cofactor_matrix([[Fraction(v) for v in r] for r in M] if ctx.symbolic else M)
        for i in range(2):
            for j in range(3):
                ref = R.matvec(C, [Fraction(v) for v in grid[i][j]] if ctx.symbolic else grid[i][j])
                got = E(Y.array[i, j])
                ctx.require(f"C06:grid{dim}d:position[{i},{j}]-is-image-of-its-element", R.proportional(ctx, got, ref))
        Z = identity_like(dim) * X
        ctx.require(f"C06:grid{dim}d:identity-keeps-shape", tuple(Z.shape) == (2, 3, n))


def identity_like(dim):
    from geometer import identity
    return identity(dim)


def mk_pow(dim, k, collection=False, affine=False):
    def case(ctx):
        from geometer import identity, Transformation, TransformationCollection
        n = dim + 1
        if collection:
            a0, M0 = sym_matrix(ctx, "t", n, affine)
            a1, M1 = sym_matrix(ctx, "u", n, affine)
            ctx.assume(ctx.neg(ctx.is_zero(R.det(M0))))
            ctx.assume(ctx.neg(ctx.is_zero(R.det(M1))))
            T = TransformationCollection(np.stack([a0, a1]))
            mats = [M0, M1]
        else:
            T, M = transformation(ctx, "t", n, affine)
            mats = [M]
        P = T ** k
        ctx.require("C06:pow:class", type(P) is type(T))
        for i, M in enumerate(mats):
            base = M if k >= 0 else R.adjugate(M)
            ref = [[1 if r == c else 0 for c in range(n)] for r in range(n)]
            for _ in range(abs(k)):
                ref = R.matmul(base, ref)
            got = R.mat(P.array[i] if collection else P.array)
            ctx.require(f"C06:pow{k}[{i}]", R.proportional(ctx, flat(got), flat(ref)))
    return case


def case_compose_matrix(dim, affine=False):
    def case(ctx):
        n = dim + 1
        S_, Ms = transformation(ctx, "s", n, affine)
        T, Mt = transformation(ctx, "t", n, affine)
        C = S_ * T
        ctx.require("C06:compose:class", type(C) is type(T))
        ctx.require("C06:compose:matrix-product", R.proportional(ctx, flat(R.mat(C.array)), flat(R.matmul(Ms, Mt))))
        I = T.inverse() * T
        ctx.require("C06:inverse-composition-is-identity", R.proportional(ctx, flat(R.mat(I.array)), [1 if r == c else 0 for r in range(n) for c in range(n)]))
    return case


# ------------------------------------------------------------------ C07

def mk_point_image(dim, affine=False):
    def case(ctx):
        n = dim + 1
        T, M = transformation(ctx, "t", n, affine)
        x = objects(ctx, "point", dim)
        y = T * x
        ctx.require("C07:point-image=M.x", R.proportional(ctx, E(y), R.matvec(M, E(x))))
        X = objects(ctx, "points_c2", dim)
        Y = T * X
        for i in range(2):
            ctx.require(f"C07:collection-point-image[{i}]", R.proportional(ctx, E(Y.array[i]), R.matvec(M, E(X.array[i]))))
    return case


def mk_incidence(kind, dim, affine=False):
    """incidence is preserved: h.x = 0 <=> (T h).(T x) = 0, through the library's contains()"""
    def case(ctx):
        n = dim + 1
        T, M = transformation(ctx, "t", n, affine)
        h = objects(ctx, kind, dim)
        if kind == "line3":
            # point on the line by construction (surjective parametrisation of the incident pairs)
            from geometer import Point
            la, mu = ctx.real("la"), ctx.real("mu")
            ab = [E(h.array)]  # unused; the spanning points are the harness inputs a, b
            a = [ctx.real(f"a_{i}") for i in range(4)]
            b = [ctx.real(f"b_{i}") for i in range(4)]
            x = Point(mk_array(ctx, [la * u + mu * v for u, v in zip(a, b)]))
            ctx.assume(R.nonzero(ctx, E(x)))
            ctx.require("C07:line3:point-on-line-contained", ctx.truth(h.contains(x)))
            ctx.require("C07:line3:image-contains-image", ctx.truth((T * h).contains(T * x)))
            return
        x = objects(ctx, "point", dim)
        before = h.contains(x)
        after = (T * h).contains(T * x)
        ctx.require(f"C07:{kind}:contains-preserved", ctx.iff(ctx.truth(before), ctx.truth(after)))
        # reference: transformed object annihilates M x exactly when the original annihilates x
        hx = T * h
        if kind == "hyper":
            ctx.require(f"C07:{kind}:image-incidence-reference", ctx.iff(ctx.is_zero(R.dot(E(hx), R.matvec(M, E(x)))), ctx.is_zero(R.dot(E(h), E(x)))))
        elif kind in ("quadric",):
            y = R.matvec(M, E(x))
            A2, A = R.mat(hx.array), R.mat(h.array)
            ctx.require(f"C07:{kind}:image-incidence-reference", ctx.iff(ctx.is_zero(R.dot(y, R.matvec(A2, y))), ctx.is_zero(R.dot(E(x), R.matvec(A, E(x))))))
    return case


def mk_inverse_big_collection(dim):
    """inverse of a collection of 64 transformations (closed-form adjugate branch of utils.math.inv), then the collection is used again:
    t.inverse() * (t * x) = x and the collection's own matrices are unchanged.  dim 1: transformations of the projective line (2x2)."""
    def case(ctx):
        import random
        from geometer import TransformationCollection, Point
        n = dim + 1
        rnd = random.Random(11 + n)
        a0, M0 = sym_matrix(ctx, "t", n, False)
        ctx.assume(ctx.neg(ctx.is_zero(R.det(M0))))
        mats, plain = [], []
        for k in range(64):
            if k == 9:
                mats.append(a0)
                plain.append(M0)
                continue
            while True:
                Mk = [[rnd.randint(-3, 3) for _ in range(n)] for _ in range(n)]
                if abs(np.linalg.det(np.array(Mk, dtype=float))) > 0.5:
                    break
            mats.append(ctx.const(Mk, float))
            plain.append(Mk)
        Tc = TransformationCollection(np.stack(mats))
        x = vec(ctx, "x", n)
        ctx.assume(R.nonzero(ctx, E(x)))
        from geometer import PointCollection
        X = PointCollection(np.stack([x] * 64))        # one point per transformation (positionwise application)
        back = Tc.inverse() * (Tc * X)
        for k in (9, 0, 37):
            ctx.require(f"C06:big-collection:inverse*(t*x)=x[{k}]", R.proportional(ctx, E(back.array[k]), E(x)))
            ctx.require(f"C06:big-collection:matrices-unchanged[{k}]", ctx.all([ctx.eq(u, v) for u, v in zip(flat(R.mat(Tc.array[k])), flat(plain[k]))]))
    return case


def mk_dualquadric_image(dim, affine=False):
    """a dual quadric (matrix D acting on hyperplanes) transforms contragrediently to a point quadric: T*D = M D M^T"""
    def case(ctx):
        n = dim + 1
        T, M = transformation(ctx, "t", n, affine)
        D = objects(ctx, "dualquadric", dim)
        TD = T * D
        ctx.require("C07:dualquadric:is_dual-kept", getattr(TD, "is_dual", None) is True)
        ref = R.matmul(R.matmul(M, R.mat(D.array)), R.transpose(M))
        ctx.require("C07:dualquadric:image-is-M.D.M^T", R.proportional(ctx, flat(R.mat(TD.array)), flat(ref)))
        ctx.require("C07:dualquadric:image-nonzero-like-reference", ctx.iff(R.nonzero(ctx, flat(R.mat(TD.array))), R.nonzero(ctx, flat(ref))))
    return case


def case_plane_line_incidence(ctx):
    """plane E through the line L (by construction): E.contains(L), and the images stay incident -- asked in this order
    (first query, then transform, then query the images)"""
    from geometer import Plane
    T, M = transformation(ctx, "t", 4, affine=True)
    a, b, r = (vec(ctx, k, 4) for k in "abr")
    ctx.assume(ctx.neg(R.rank_deficient(ctx, [E(a), E(b), E(r)])))
    L = line3_from_points(ctx, a, b)
    Epl = Plane(mk_array(ctx, plane3(E(a), E(b), E(r))))
    ctx.require("C07:plane-line:contains-before", ctx.truth(Epl.contains(L)))
    TL, TE = T * L, T * Epl
    ctx.require("C07:plane-line:images-incident", ctx.truth(TE.contains(TL)))
    # a plane through a but not b does not contain L, nor do the images
    c = vec(ctx, "c", 4)
    F = Plane(c)
    ca, cb = R.dot(E(c), E(a)), R.dot(E(c), E(b))
    ctx.require("C07:plane-line:contains-iff-both-points", ctx.iff(ctx.truth(F.contains(L)), ctx.all([ctx.is_zero(ca), ctx.is_zero(cb)])))


def mk_big_collection(dim):
    """TransformationCollection with 8x8 members (the >= 64 switch of inv/adjugate, two collection axes) applied to a
    hyperplane and a point: incidence is preserved at every position checked"""
    def case(ctx):
        from geometer import TransformationCollection, Point, Line, Plane
        import random
        n = dim + 1
        rnd = random.Random(7)
        a0, M0 = sym_matrix(ctx, "t", n)
        ctx.assume(ctx.neg(ctx.is_zero(R.det(M0))))
        mats = []
        for k in range(64):
            if k == 9:
                mats.append(a0)
                continue
            while True:
                Mk = [[rnd.randint(-3, 3) for _ in range(n)] for _ in range(n)]
                if abs(np.linalg.det(np.array(Mk, dtype=float))) > 0.5:
                    break
            mats.append(ctx.const(Mk, float))
        arr = np.stack(mats).reshape((8, 8, n, n))
        Tc = TransformationCollection(arr)
        x = vec(ctx, "x", n)
        h = vec(ctx, "h", n)
        ctx.assume(R.nonzero(ctx, E(x)))
        ctx.assume(R.nonzero(ctx, E(h)))
        X = Tc * Point(x)
        H = Tc * (Line if dim == 2 else Plane)(h)
        hx = R.dot(E(h), E(x))
        for (i, j) in ((1, 1), (0, 3), (5, 2)):
            Mij = R.mat(arr[i, j])
            ctx.require(f"C07:big-collection:point[{i},{j}]", R.proportional(ctx, E(X.array[i, j]), R.matvec(Mij, E(x))))
            # (T h).(T x) proportional to h.x : zero together
            v = R.dot(E(H.array[i, j]), R.matvec(Mij, E(x)))
            ctx.require(f"C07:big-collection:incidence[{i},{j}]", ctx.iff(ctx.is_zero(v), ctx.is_zero(hx)))
    return case


def mk_commute(opname, dim, kinds, affine=False):
    """T*op(a,b,..) == op(T*a, T*b, ..)"""
    def case(ctx):
        from geometer import join, meet, Point, Line, Plane
        from geometer.exceptions import LinearDependenceError, NotCoplanar
        n = dim + 1
        T, M = transformation(ctx, "t", n, affine)
        args = []
        for i, k in enumerate(kinds):
            if k == "p":
                args.append(Point(vec(ctx, f"p{i}", n)))
            elif k == "h":
                args.append((Line if dim == 2 else Plane)(vec(ctx, f"h{i}", n)))
            elif k == "l":
                args.append(line3_from_points(ctx, vec(ctx, f"a{i}", 4), vec(ctx, f"b{i}", 4)))
        op = join if opname == "join" else meet
        try:
            r = op(*args)
        except (LinearDependenceError, NotCoplanar):
            ctx.outcome("degenerate")
            return
        lhs = T * r
        try:
            rhs = op(*[T * a for a in args])
        except (LinearDependenceError, NotCoplanar):
            # images of independent objects under an invertible map are independent (a fact about M, established through
            # C07:point-image=M.x and C02); the solver cannot decide the infeasibility of this path, so it is only tagged
            ctx.outcome("image-degenerate(unreachable)")
            return
        same_object(ctx, f"{opname}{kinds}", lhs, rhs, "C07")
    return case


def mk_tangent_preserved(dim, affine=False):
    def case(ctx):
        n = dim + 1
        T, M = transformation(ctx, "t", n, affine)
        q = objects(ctx, "quadric", dim)
        ctx.assume(ctx.neg(ctx.is_zero(R.det(R.mat(q.array)))))
        h = objects(ctx, "hyper", dim)
        ctx.require("C07:is_tangent-preserved", ctx.iff(ctx.truth(q.is_tangent(h)), ctx.truth((T * q).is_tangent(T * h))))
    return case


def mk_crossratio_invariant(dim, affine=False, from_point=False):
    def case(ctx):
        from geometer import crossratio, Point
        n = dim + 1
        T, M = transformation(ctx, "t", n, affine)
        if from_point:
            pts = [Point(vec(ctx, k, 3)) for k in "abcd"]
            o = Point(vec(ctx, "o", 3))
            c1 = crossratio(*pts, o)
            c2 = crossratio(*[T * p for p in pts], T * o)
        else:
            a, b = vec(ctx, "a", n), vec(ctx, "b", n)
            ctx.assume(ctx.neg(R.rank_deficient(ctx, [E(a), E(b)])))
            pts = []
            for k in range(4):
                mu, xi = ctx.real(f"mu{k}"), ctx.real(f"xi{k}")
                pts.append(Point(mk_array(ctx, [mu * u + xi * v for u, v in zip(E(a), E(b))])))
            c1 = crossratio(*pts)
            c2 = crossratio(*[T * p for p in pts])
        if ctx.symbolic:
            from symgeo.alg import Alg
            s1 = getattr(Alg.of(c1), "special", None) if not hasattr(c1, "shape") or c1.shape == () else None
        ctx.require("C07:crossratio-invariant", ctx.eq(c1, c2))
    return case


INT_M = {3: [[2, 0, 1], [0, 3, 0], [1, 0, 1]], 4: [[2, 0, 1, 0], [0, 3, 0, 1], [1, 0, 1, 0], [0, 0, 0, 2]]}


def mk_int_matrix(dim):
    """transformation given by an integer-typed matrix with |det| != 1 (its inverse is not an integer matrix)"""
    def case(ctx):
        from geometer import Transformation
        n = dim + 1
        M = INT_M[n]
        T = Transformation(np.array(M))
        Ti = T.inverse()
        prod = R.mat((T * Ti).array)
        I = [[1 if i == j else 0 for j in range(n)] for i in range(n)]
        for tag in ("C06", "C07"):
            ctx.require(f"{tag}:int-matrix:T*T^-1=identity", R.proportional(ctx, flat(prod), flat(I)))
            ctx.require(f"{tag}:int-matrix:inverse-nonzero", R.nonzero(ctx, E(Ti.array)))
        h, x = objects(ctx, "hyper", dim), objects(ctx, "point", dim)
        hx = T * h
        for tag in ("C06", "C07"):
            ctx.require(f"{tag}:int-matrix:hyper-image-nonzero", R.nonzero(ctx, E(hx)))
            ctx.require(f"{tag}:int-matrix:hyper-image-incidence-reference", ctx.iff(ctx.is_zero(R.dot(E(hx), R.matvec(M, E(x)))), ctx.is_zero(R.dot(E(h), E(x)))))
            ctx.require(f"{tag}:int-matrix:contains-preserved", ctx.iff(ctx.truth(h.contains(x)), ctx.truth(hx.contains(T * x))))
        q = objects(ctx, "quadric", dim)
        qx = T * q
        y = R.matvec(M, E(x))
        A2, A = R.mat(qx.array), R.mat(q.array)
        for tag in ("C06", "C07"):
            ctx.require(f"{tag}:int-matrix:quadric-image-incidence-reference", ctx.iff(ctx.is_zero(R.dot(y, R.matvec(A2, y))), ctx.is_zero(R.dot(E(x), R.matvec(A, E(x))))))
    return case


def mk_polytope_vertices(kind, dim, affine=False):
    def case(ctx):
        n = dim + 1
        T, M = transformation(ctx, "t", n, affine)
        from geometer.exceptions import LinearDependenceError, NotCoplanar
        x = objects(ctx, kind, dim)
        try:
            y = T * x
        except (LinearDependenceError, NotCoplanar):
            ctx.outcome("image-degenerate(unreachable)")
            return
        ctx.require("C07:polytope:class", type(y) is type(x))
        k = x.array.shape[0]
        for i in range(k):
            ctx.require(f"C07:{kind}:vertex[{i}]-is-image", R.proportional(ctx, E(y.array[i]), R.matvec(M, E(x.array[i]))))
            if dim == 2:
                ctx.require(f"C07:{kind}:vertex[{i}]-image-nonzero", R.nonzero(ctx, E(y.array[i])))
        cached_consistent(ctx, kind, y, "C07")
    return case


def all_cases(which):
    Q, Tt = ("quick", "thorough"), ("thorough",)
    cs = []
    if which == "C07":
        return c07_cases()
    # --- C06
    for dim in (2, 3):
        aff3 = dim == 3
        for kind in ("point", "hyper", "quadric", "dualquadric", "points_c2", "hyper_c2", "hyper_c2x3", "segment", "triangle", "polygon4") + (("line3", "line3cov") if dim == 3 else ()):
            heavy = dim == 3 and kind in ("quadric", "dualquadric")
            conc = dim == 3 and kind in ("line3", "line3cov", "segment", "quadric", "dualquadric", "polygon4", "triangle", "hyper_c2")
            cs.append((f"group_{kind}_{dim}d" + ("_affine" if aff3 else "") + ("_Sconcrete" if conc else ""), mk_group(kind, dim, affine=aff3, concrete_s=conc), dict(tiers=Tt if heavy else Q)))
            if conc:
                cs.append((f"group_{kind}_3d_affine", mk_group(kind, 3, affine=True), dict(tiers=Tt)))
            if dim == 3:
                cs.append((f"group_{kind}_3d_general", mk_group(kind, 3, affine=False), dict(tiers=Tt)))
        for kind in ("point", "hyper", "segment", "triangle", "polygon4"):
            cs.append((f"image_nonzero_{kind}_{dim}d", mk_image_nonzero(kind, dim, affine=(dim == 3 and kind not in ("point", "hyper"))), dict(tiers=Q if ((dim == 2 and kind != "hyper") or kind == "segment") else ("attempt",))))   # hyper_2d: decided, but only by the last solver tier in ~30 s (fragile) -> not claimed
        cs.append((f"int_matrix_{dim}d", mk_int_matrix(dim), dict(tiers=Q)))
        cs.append((f"inverse_big_collection_{dim}d", mk_inverse_big_collection(dim), dict(tiers=Q)))
        if dim == 2:
            cs.append(("inverse_big_collection_1d", mk_inverse_big_collection(1), dict(tiers=Q)))
        cs.append((f"compose_{dim}d", case_compose_matrix(dim, affine=False), dict(tiers=Q)))
        if dim == 2:
            cs.append(("grid_lattice", case_grid_lattice, dict(tiers=Q)))
        for k in (-3, -2, -1, 0, 1, 2, 3):
            cs.append((f"pow{k}_{dim}d", mk_pow(dim, k, affine=(dim == 3 and k < 0)), dict(tiers=Q if abs(k) <= 2 else Tt)))
        for k in (-2, 0, 2):
            cs.append((f"pow{k}_{dim}d_coll", mk_pow(dim, k, collection=True, affine=(dim == 3)), dict(tiers=Q if dim == 2 else Tt)))
    return cs


def c07_cases():
    Q, Tt = ("quick", "thorough"), ("thorough",)
    cs = []
    for dim in (2, 3):
        cs.append((f"point_image_{dim}d", mk_point_image(dim), dict(tiers=Q)))
        cs.append((f"incidence_hyper_{dim}d", mk_incidence("hyper", dim), dict(tiers=Q)))
        cs.append((f"incidence_quadric_{dim}d", mk_incidence("quadric", dim, affine=(dim == 3)), dict(tiers=Q)))
        cs.append((f"tangent_{dim}d", mk_tangent_preserved(dim, affine=(dim == 3)), dict(tiers=Q if dim == 2 else Tt)))
        cs.append((f"polytope_segment_{dim}d", mk_polytope_vertices("segment", dim), dict(tiers=Q)))
        cs.append((f"polytope_polygon4_{dim}d", mk_polytope_vertices("polygon4", dim, affine=(dim == 3)), dict(tiers=Q)))
    cs.append(("dualquadric_image_2d", mk_dualquadric_image(2), dict(tiers=Q)))
    cs.append(("dualquadric_image_3d", mk_dualquadric_image(3, affine=True), dict(tiers=Q)))
    cs.append(("int_matrix_2d", mk_int_matrix(2), dict(tiers=Q)))
    cs.append(("int_matrix_3d", mk_int_matrix(3), dict(tiers=Q)))
    cs.append(("incidence_line3_3d", mk_incidence("line3", 3, affine=True), dict(tiers=Q)))
    cs.append(("incidence_plane_line_3d", case_plane_line_incidence, dict(tiers=Q)))
    cs.append(("big_collection_2d", mk_big_collection(2), dict(tiers=Q)))
    cs.append(("big_collection_3d", mk_big_collection(3), dict(tiers=Q)))
    for opname, dim, kinds, tiers in (("join", 2, "pp", Q), ("meet", 2, "hh", Q), ("join", 3, "pp", Q), ("join", 3, "ppp", Q), ("meet", 3, "hh", Q),
                                      ("meet", 3, "hhh", Q), ("join", 3, "pl", Q), ("join", 3, "lp", Tt), ("meet", 3, "hl", Q), ("meet", 3, "lh", Tt)):
        cs.append((f"commute_{opname}_{kinds}_{dim}d", mk_commute(opname, dim, kinds, affine=(dim == 3 and ("l" in kinds or kinds == "hhh"))), dict(tiers=tiers)))
    return cs
