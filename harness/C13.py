"""C13 - quadric constructors produce the quadric of their defining data."""
from __future__ import annotations

import itertools
import math
import time

import numpy as np

from symgeo.driver import Case
from symgeo import refgeo as R
from harness.common import vec, E
from harness.tr import mk_array

EVIDENCE = {
    "functions": ["curve.Ellipse.__init__", "curve.Circle.__init__/radius/area", "curve.Sphere.__init__/center/radius/volume/area/_alpha", "curve.Conic.from_points / from_tangent / from_crossratio", "curve.Conic.from_foci (concrete lattice sweep)", "curve.Cone.__init__ / Cylinder.__init__ (concrete octant sweep)",
                  "QuadricTensor.contains", "PointLikeTensor._normalize_array"],
    "bounds": "circle / ellipse / sphere: centre given by an arbitrary non-zero multiple of its coordinates (free weight), radii free positive reals, query point free; from_points: two free and three "
              "lattice points; from_tangent: four lattice points, tangent line with lattice direction and a free real offset (real branch and complex fall-back branch); from_crossratio: four lattice points and a fifth point with a free abscissa; integer-typed weighted centres with integer radius; from_foci: lattice foci x lattice boundary points incl. points equidistant from the foci (concrete evaluation, supplementary); cone / cylinder: every octant of the axis direction with lattice parameters (concrete evaluation of the locus at constructed points); pi symbolic",
    "outside": "from_foci symbolically (nested complex radicals; tier 'attempt', undecided), Circle.center through foci, cones with symbolic axis (log/rotation stubs with nested radicals), rounding",
    "assumptions": ["math.pi based constants are recognised as rational multiples of the symbol pi", "np.linalg.eigvalsh stub: the normalisation factor of from_points is a positive unknown"],
}


def _setup():
    from symgeo.lemmas import use_is_multiple_lemma
    use_is_multiple_lemma(True)


def _center(ctx, dim, name="c"):
    """(cartesian centre list, geometer Point with free non-zero weight)"""
    from geometer import Point
    c = [ctx.real(f"{name}{i}") for i in range(dim)]
    w = ctx.real("w")
    ctx.assume(ctx.neg(ctx.is_zero(w)))
    return c, Point(mk_array(ctx, [w * x for x in c] + [w]))


def _flat(M):
    return [x for r in M for x in r]


def case_circle(ctx):
    from geometer import Circle
    c, P = _center(ctx, 2)
    r = ctx.real("r")
    ctx.assume(ctx.lt(0, r))
    C = Circle(P, r)
    ref = [[1, 0, -c[0]], [0, 1, -c[1]], [-c[0], -c[1], c[0] * c[0] + c[1] * c[1] - r * r]]
    ctx.require("circle:matrix-is-the-circle-equation", R.proportional(ctx, E(C.array), _flat(ref)))
    ctx.require("circle:matrix-nonzero", R.nonzero(ctx, E(C.array)))
    rad = C.radius
    ctx.require("circle:radius", ctx.all([ctx.le(0, rad), ctx.eq(rad * rad, r * r)]))
    a = C.area
    if ctx.symbolic:
        from symgeo.trig import pi_const
        pi = pi_const()
    else:
        pi = math.pi
    ctx.require("circle:area=pi*r^2", ctx.eq(a, pi * r * r))
    x = vec(ctx, "x", 3)
    xe = E(x)
    eq = (xe[0] - c[0] * xe[2]) * (xe[0] - c[0] * xe[2]) + (xe[1] - c[1] * xe[2]) * (xe[1] - c[1] * xe[2]) - r * r * xe[2] * xe[2]
    from geometer import Point
    ctx.require("circle:contains-iff-locus", ctx.iff(ctx.truth(C.contains(Point(x))), ctx.is_zero(eq)))


def case_ellipse(ctx):
    from geometer import Ellipse
    c, P = _center(ctx, 2)
    h, v = ctx.real("h"), ctx.real("v")
    ctx.assume(ctx.lt(0, h))
    ctx.assume(ctx.lt(0, v))
    Eo = Ellipse(P, h, v)
    # (x-cx)^2/h^2 + (y-cy)^2/v^2 = 1  <=>  v^2 (x-cx)^2 + h^2 (y-cy)^2 - h^2 v^2 = 0
    ref = [[v * v, 0, -v * v * c[0]], [0, h * h, -h * h * c[1]], [-v * v * c[0], -h * h * c[1], v * v * c[0] * c[0] + h * h * c[1] * c[1] - h * h * v * v]]
    ctx.require("ellipse:matrix-is-the-ellipse-equation", R.proportional(ctx, E(Eo.array), _flat(ref)))
    ctx.require("ellipse:matrix-nonzero", R.nonzero(ctx, E(Eo.array)))


def case_sphere(ctx):
    from geometer import Sphere
    c, P = _center(ctx, 3)
    r = ctx.real("r")
    ctx.assume(ctx.lt(0, r))
    S = Sphere(P, r)
    cc = c[0] * c[0] + c[1] * c[1] + c[2] * c[2]
    ref = [[1, 0, 0, -c[0]], [0, 1, 0, -c[1]], [0, 0, 1, -c[2]], [-c[0], -c[1], -c[2], cc - r * r]]
    ctx.require("sphere:matrix-is-the-sphere-equation", R.proportional(ctx, E(S.array), _flat(ref)))
    ctx.require("sphere:matrix-nonzero", R.nonzero(ctx, E(S.array)))
    ctx.require("sphere:center", R.proportional(ctx, E(S.center), c + [1]))
    rad = S.radius
    ctx.require("sphere:radius", ctx.all([ctx.le(0, rad), ctx.eq(rad * rad, r * r)]))
    if ctx.symbolic:
        from symgeo.trig import pi_const
        pi = pi_const()
    else:
        pi = math.pi
    ctx.require("sphere:volume=4/3*pi*r^3", ctx.eq(3 * S.volume, 4 * pi * rad * rad * rad))
    ctx.require("sphere:area=4*pi*r^2", ctx.eq(S.area, 4 * pi * rad * rad))


def case_sphere_int_center(ctx):
    """integer-typed centre with a non-integer radius (dtype promotion of the matrix)"""
    from geometer import Sphere, Point
    from fractions import Fraction
    r = Fraction(5, 2) if ctx.symbolic else 2.5
    S = Sphere(Point(1, 2, 3), 2.5)
    x = vec(ctx, "x", 4)
    xe = E(x)
    eq = sum((xe[i] - (i + 1) * xe[3]) * (xe[i] - (i + 1) * xe[3]) for i in range(3)) - r * r * xe[3] * xe[3]
    ctx.require("sphere(int centre, r=2.5):contains-iff-locus", ctx.iff(ctx.truth(S.contains(Point(x))), ctx.is_zero(eq)))
    C = __import__("geometer").Circle(Point(1, 2), 1.5)
    y = vec(ctx, "y", 3)
    ye = E(y)
    r2 = Fraction(9, 4) if ctx.symbolic else 2.25
    eq2 = (ye[0] - ye[2]) * (ye[0] - ye[2]) + (ye[1] - 2 * ye[2]) * (ye[1] - 2 * ye[2]) - r2 * ye[2] * ye[2]
    ctx.require("circle(int centre, r=1.5):contains-iff-locus", ctx.iff(ctx.truth(C.contains(Point(y))), ctx.is_zero(eq2)))


def case_int_weighted_centre(ctx):
    """integer-typed representative of the centre with a weight other than 1 (non-integer Cartesian centre) and an integer radius"""
    from geometer import Sphere, Circle, Point
    from fractions import Fraction as F
    h = (lambda a, b: F(a, b)) if ctx.symbolic else (lambda a, b: a / b)
    S = Sphere(Point(np.array([1, 2, 3, 2])), 2)
    x = vec(ctx, "x", 4)
    xe = E(x)
    cen = [h(1, 2), 1, h(3, 2)]
    eq = sum((xe[i] - cen[i] * xe[3]) * (xe[i] - cen[i] * xe[3]) for i in range(3)) - 4 * xe[3] * xe[3]
    ctx.require("sphere(int centre [1,2,3,2], r=2):contains-iff-locus", ctx.iff(ctx.truth(S.contains(Point(x))), ctx.is_zero(eq)))
    S2 = Sphere(Point(np.array([-3, 1, 0, -2])), 1)
    cen2 = [h(3, 2), h(-1, 2), 0]
    eq = sum((xe[i] - cen2[i] * xe[3]) * (xe[i] - cen2[i] * xe[3]) for i in range(3)) - xe[3] * xe[3]
    ctx.require("sphere(int centre [-3,1,0,-2], r=1):contains-iff-locus", ctx.iff(ctx.truth(S2.contains(Point(x))), ctx.is_zero(eq)))
    C = Circle(Point(np.array([1, 3, 2])), 1)
    y = vec(ctx, "y", 3)
    ye = E(y)
    eq2 = (ye[0] - h(1, 2) * ye[2]) * (ye[0] - h(1, 2) * ye[2]) + (ye[1] - h(3, 2) * ye[2]) * (ye[1] - h(3, 2) * ye[2]) - ye[2] * ye[2]
    ctx.require("circle(int centre [1,3,2], r=1):contains-iff-locus", ctx.iff(ctx.truth(C.contains(Point(y))), ctx.is_zero(eq2)))


def case_from_points(ctx):
    from geometer import Conic, Point
    pts = [vec(ctx, "a", 3), vec(ctx, "b", 3)]
    for p in pts:
        ctx.assume(ctx.neg(ctx.is_zero(E(p)[2])))
    conc = [[0, 0, 1], [2, 1, 1], [-1, 3, 2]]
    P = [Point(p) for p in pts] + [Point(ctx.const(q, float)) for q in conc]
    allp = [E(p) for p in pts] + conc
    for i, j, k in itertools.combinations(range(5), 3):
        ctx.assume(ctx.neg(ctx.is_zero(R.det([allp[i], allp[j], allp[k]]))))
    C = Conic.from_points(*P)
    A = R.mat(C.array)
    ctx.require("from_points:nonzero", R.nonzero(ctx, _flat(A)))
    for i, q in enumerate(allp):
        ctx.require(f"from_points:contains[{i}]", ctx.is_zero(R.dot(q, R.matvec(A, q))))
    ctx.require("from_points:symmetric", ctx.all([ctx.eq(A[i][j], A[j][i]) for i in range(3) for j in range(i)]))


FT_CONFIGS = [([(1, 1), (-1, 1), (-1, -1), (1, -1)], (1, 1)), ([(0, 0), (2, 0), (3, 2), (0, 1)], (1, -2)), ([(1, 0), (0, 2), (-2, 1), (0, -1)], (0, 1))]


def mk_from_tangent(k):
    """four lattice points, tangent line with lattice direction and a free real offset t (both the real-conic branch and the complex fall-back
    branch - no real conic through the points touches the line - are paths of the query)"""
    def case(ctx):
        from geometer import Conic, Point, Line
        pts, (n0, n1) = FT_CONFIGS[k]
        t = ctx.real("t")
        l = [n0, n1, -t]
        for (x, y) in pts:
            ctx.assume(ctx.neg(ctx.is_zero(n0 * x + n1 * y - t)))
        C = Conic.from_tangent(Line(mk_array(ctx, l)), *[Point(ctx.const([x, y, 1], float)) for x, y in pts])
        A = R.mat(C.array)
        ctx.require("from_tangent:nonzero", R.nonzero(ctx, _flat(A)))
        for i, (x, y) in enumerate(pts):
            q = [x, y, 1]
            ctx.require(f"from_tangent:contains[{i}]", ctx.is_zero(R.dot(q, R.matvec(A, q))))
        ctx.require("from_tangent:tangent-to-the-line", ctx.is_zero(R.dot(l, R.matvec(R.adjugate(A), l))))
    return case


FC_POINTS = [[(0, 0), (2, 0), (3, 2), (0, 1)], [(1, 1), (-1, 1), (-1, -1), (1, -1)], [(1, 0), (0, 2), (-2, 1), (0, -1)]]


def mk_from_crossratio(k):
    """four lattice points and a fifth point e = (s, 5) with a free real abscissa: the conic built from the cross ratio (a,b;c,d) seen from e is the conic through the five points"""
    def case(ctx):
        from geometer import Conic, Point
        pts = [[x, y, 1] for x, y in FC_POINTS[k]]
        s_ = ctx.real("s")
        e = [s_, 5, 1]
        a, b, c, d = pts
        den = R.det([e, a, d]) * R.det([e, b, c])
        for i, j, l in itertools.combinations(range(5), 3):
            allp = pts + [e]
            ctx.assume(ctx.neg(ctx.is_zero(R.det([allp[i], allp[j], allp[l]]))))
        cr = R.det([e, a, c]) * R.det([e, b, d]) / den
        P = [Point(ctx.const(q, float)) for q in pts]
        C1 = Conic.from_crossratio(cr, *P)
        A1 = R.mat(C1.array)
        ctx.require("from_crossratio:nonzero", R.nonzero(ctx, _flat(A1)))
        for i, q in enumerate(pts + [e]):
            ctx.require(f"from_crossratio:contains[{i}]", ctx.is_zero(R.dot(q, R.matvec(A1, q))))
        C2 = Conic.from_points(*P, Point(mk_array(ctx, e)))
        ctx.require("from_crossratio:agrees-with-from_points", R.proportional(ctx, _flat(A1), _flat(R.mat(C2.array))))
    return case


FF_FOCI = [((-1, 0), (1, 0)), ((0, 0), (3, 1)), ((1, 2), (1, -2))]


def mk_from_foci(k):
    """lattice foci, boundary point (s, 2) with a free real abscissa: the conic passes through the boundary point and the four isotropic lines
    through the foci (f v I, f v J) are tangent to it (the projective definition of a focus)"""
    def case(ctx):
        from geometer import Conic, Point
        from geometer.point import I, J
        (f1, f2) = FF_FOCI[k]
        s_ = ctx.real("s")
        b = [s_, 2, 1]
        C = Conic.from_foci(Point(ctx.const([f1[0], f1[1], 1], float)), Point(ctx.const([f2[0], f2[1], 1], float)), Point(mk_array(ctx, b)))
        A = R.mat(C.array)
        ctx.require("from_foci:nonzero", R.nonzero(ctx, _flat(A)))
        ctx.require("from_foci:contains-the-boundary-point", ctx.is_zero(R.dot(b, R.matvec(A, b))))
        adj = R.adjugate(A)
        Ie, Je = E(I.array), E(J.array)
        for name, f in (("f1", f1), ("f2", f2)):
            for iso, v in (("I", Ie), ("J", Je)):
                t = R.cross3([f[0], f[1], 1], v)
                ctx.require(f"from_foci:isotropic-line-{name}{iso}-is-tangent", ctx.is_zero(R.dot(t, R.matvec(adj, t))))
    return case


def custom_cone_cylinder(tier, seed):
    """every octant of the axis direction: constructed points of the Cartesian locus lie on the quadric, points off it do not (concrete)"""
    from geometer import Cone, Cylinder, Point
    t0 = time.time()
    res = {"paths": 0, "forks": 0, "obligations": 0, "ob_total": 0, "violations": [], "inconclusive": [], "samples": [], "by_step": {"evaluated": 0},
           "outcomes": {}, "reach": {}, "validated": 0, "solver_time": 0.0}
    seen = set()

    def frame(d):
        d = np.asarray(d, float)
        d = d / np.linalg.norm(d)
        h = np.array([1.0, 0, 0]) if abs(d[0]) < 0.9 else np.array([0, 1.0, 0])
        u = np.cross(d, h)
        u /= np.linalg.norm(u)
        v = np.cross(d, u)
        return d, u, v
    for sx, sy, sz in itertools.product((1, -1), repeat=3):
        direction = np.array([sx * 1.0, sy * 2.0, sz * 3.0])
        center = np.array([1.0, -2.0, 0.5])
        r = 1.5
        d, u, v = frame(direction)
        for kind in ("Cylinder", "Cone"):
            res["ob_total"] += 1
            res["obligations"] += 1
            res["by_step"]["evaluated"] += 1
            res["paths"] += 1
            name = None
            try:
                if kind == "Cylinder":
                    q = Cylinder(Point(*center), Point(*direction), r)
                    on = [center + t * d + r * (math.cos(a) * u + math.sin(a) * v) for t in (-1.0, 0.7) for a in (0.3, 2.0, 4.5)]
                    off = [center + 0.4 * d + 2 * r * u]
                else:
                    base = center + 2.0 * d
                    q = Cone(Point(*center), Point(*base), r)
                    on = [center + t * d + (abs(t) * r / 2.0) * (math.cos(a) * u + math.sin(a) * v) for t in (1.0, -1.5, 2.0) for a in (0.3, 2.0)]
                    off = [center + 1.0 * d + 2 * r * u]
                ok = all(bool(q.contains(Point(*p), tol=1e-6)) for p in on) and not any(bool(q.contains(Point(*p), tol=1e-6)) for p in off)
                if not ok:
                    name = f"{kind}:locus-in-octant({sx},{sy},{sz})"
            except Exception as e:
                name = f"{kind}:{type(e).__name__}-in-octant({sx},{sy},{sz})"
            if name and name not in seen:
                seen.add(name)
                res["violations"].append({"case": "cone_cylinder_octants", "obligation": name, "env": {"direction": str(direction.tolist())}, "replay": {"failed": [name]}})
    res["wall"] = time.time() - t0
    return res


def custom_from_foci(tier, seed):
    """supplementary, NOT a solver verdict (the symbolic case from_foci_lattice*_free_boundary_point is undecided: nested complex radicals): concrete
    evaluation of Conic.from_foci on lattice foci x lattice boundary points: the conic passes through the boundary point and .foci returns the two foci"""
    from geometer import Conic, Point
    t0 = time.time()
    res = {"paths": 0, "forks": 0, "obligations": 0, "ob_total": 0, "violations": [], "inconclusive": [], "samples": [], "by_step": {"evaluated": 0},
           "outcomes": {}, "reach": {}, "validated": 0, "solver_time": 0.0}
    seen = set()
    foci = [((-1, 0), (1, 0)), ((0, 0), (3, 1)), ((1, 2), (1, -2)), ((-2, -1), (2, 3)), ((0, 0), (0, 4))]
    bounds = [(x, y) for x in (-3, -1, 0, 2, 5) for y in (-2, 1, 3)]
    for f1, f2 in foci:
        # plus boundary points equidistant from the two foci (co-vertices of the ellipse): mid point + k * normal
        mid2 = (f1[0] + f2[0], f1[1] + f2[1])
        nrm = (-(f2[1] - f1[1]), f2[0] - f1[0])
        eq = [((mid2[0] + k * nrm[0]) / 2, (mid2[1] + k * nrm[1]) / 2) for k in (-3, -1, 1, 2)]
        for b in bounds + eq:
            d1 = (b[0] - f1[0]) ** 2 + (b[1] - f1[1]) ** 2
            d2 = (b[0] - f2[0]) ** 2 + (b[1] - f2[1]) ** 2
            # on the line through the foci the conic degenerates (segment / rays): not a configuration in general position
            if (f2[0] - f1[0]) * (b[1] - f1[1]) - (f2[1] - f1[1]) * (b[0] - f1[0]) == 0:
                continue
            cls = "equidistant" if d1 == d2 else "generic"
            res["ob_total"] += 1
            res["obligations"] += 1
            res["by_step"]["evaluated"] += 1
            bad = None
            try:
                C = Conic.from_foci(Point(*f1), Point(*f2), Point(*b))
                if not bool(C.contains(Point(*b), tol=1e-6)):
                    bad = f"from_foci[{cls}]:boundary-point-not-on-conic"
                else:
                    F = [np.real_if_close(x.normalized_array, tol=1e6) for x in C.foci]
                    want = [np.array([f1[0], f1[1], 1.0]), np.array([f2[0], f2[1], 1.0])]
                    ok = len(F) == 2 and all(any(np.abs(np.asarray(g, dtype=complex) - w).max() < 1e-6 for g in F) for w in want)
                    if not ok:
                        bad = f"from_foci[{cls}]:foci-differ"
            except Exception as e:
                bad = f"from_foci[{cls}]:{type(e).__name__}"
            if bad and bad not in seen:
                seen.add(bad)
                res["violations"].append({"case": "from_foci_lattice", "obligation": bad, "env": {"f1": str(f1), "f2": str(f2), "bound": str(b)}, "replay": {"failed": [bad]}})
    res["paths"] = res["ob_total"]
    res["wall"] = time.time() - t0
    return res


def cases(tier, seed):
    Q, T = ("quick", "thorough"), ("thorough",)
    cs = []

    def add(name, fn, **kw):
        cs.append(Case(name, fn, setup=_setup, **kw))
    add("circle", case_circle, tiers=Q, max_paths=2000)
    add("ellipse", case_ellipse, tiers=Q, max_paths=2000)
    add("sphere", case_sphere, tiers=Q, max_paths=2000)
    add("int_centre_float_radius", case_sphere_int_center, tiers=Q)
    add("int_weighted_centre_int_radius", case_int_weighted_centre, tiers=Q)
    add("from_points", case_from_points, tiers=Q, max_paths=3000)
    for k in range(len(FT_CONFIGS)):
        add(f"from_tangent_lattice{k}_free_offset", mk_from_tangent(k), tiers=Q, max_paths=3000)
    for k in range(len(FC_POINTS)):
        add(f"from_crossratio_lattice{k}_free_fifth_point", mk_from_crossratio(k), tiers=Q, max_paths=3000)
    for k in range(len(FF_FOCI)):
        add(f"from_foci_lattice{k}_free_boundary_point", mk_from_foci(k), tiers=("attempt",), max_paths=3000)
    cs.append(Case("from_foci_lattice", custom_from_foci, kind="custom"))
    cs.append(Case("cone_cylinder_octants", custom_cone_cylinder, kind="custom"))
    return cs
