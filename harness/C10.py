"""C10 - perpendicular / parallel / projection / mirror constructions and the metric predicates."""
from __future__ import annotations

import numpy as np

from symgeo.driver import Case
from symgeo import refgeo as R
from harness.common import vec, E
from harness.tr import mk_array

EVIDENCE = {
    "functions": ["LineTensor.perpendicular (both branches)", "SubspaceTensor.parallel/project", "LineTensor.mirror", "PlaneTensor.perpendicular/parallel/project", "LineTensor.base_point/direction/basis_matrix",
                  "SubspaceTensor.general_point", "operators.is_perpendicular/is_coplanar/is_collinear/is_concurrent/is_cocircular", "SubspaceTensor.is_parallel", "operators.angle_bisectors", "PlaneTensor.mirror"],
    "bounds": "2-D lines and points with free real coordinates (line not at infinity where the construction needs a finite line; the point on / off the line are separate paths); "
              "3-D planes with free reals; single objects; angle_bisectors: lattice line x line with one free real slope parameter through a lattice vertex (4 configurations; complex square roots as constrained pairs), "
              "in 3-space one configuration (thorough); is_coplanar: four free points of 3-space; Plane.mirror: 4 lattice planes x a point with one free coordinate (2 in quick, 2 in thorough)",
    "outside": "3-D lines (SVD-based basis_matrix; nested complex radicals for mirror; built, tier 'attempt'), angle_bisectors of two fully free lines and further 3-D configurations (attempt, undecided in 300 s), collections (C04), rounding",
    "assumptions": ["ProjectiveTensor.__eq__/is_multiple: lemma proved in C20", "np.linalg.qr: Gram-Schmidt contract stub for PlaneTensor.basis_matrix"],
}


def _setup():
    from symgeo.lemmas import use_is_multiple_lemma
    use_is_multiple_lemma(True)


def _nz(ctx, v):
    ctx.assume(R.nonzero(ctx, E(v)))
    return v


def _line(ctx, name="l", finite=True):
    l = _nz(ctx, vec(ctx, name, 3))
    if finite:
        ctx.assume(ctx.neg(ctx.all([ctx.is_zero(E(l)[0]), ctx.is_zero(E(l)[1])])))
    return l


def _point(ctx, name="p", finite=True):
    p = _nz(ctx, vec(ctx, name, 3))
    if finite:
        ctx.assume(ctx.neg(ctx.is_zero(E(p)[2])))
    return p


def _re(ctx, x):
    """real part of a possibly complex library value"""
    if ctx.symbolic:
        from symgeo.alg import Cx
        return x.re if isinstance(x, Cx) else x
    return np.real(x)


def _vals(ctx, obj):
    return E(obj)


def case_perpendicular(ctx):
    from geometer import Point, Line
    l, p = _line(ctx), _point(ctx)
    le, pe = E(l), E(p)
    on = ctx.fork(ctx.is_zero(R.dot(le, pe)))
    m = Line(l).perpendicular(Point(p))
    ctx.outcome(f"on-line={on}")
    me = E(m)
    ctx.require("perpendicular:nonzero", R.nonzero(ctx, me))
    ctx.require("perpendicular:through-point", ctx.is_zero(R.dot(me, pe)))
    ctx.require("perpendicular:orthogonal", ctx.is_zero(me[0] * le[0] + me[1] * le[1]))
    ctx.require("perpendicular:class", type(m).__name__ == "Line")


def case_parallel(ctx):
    from geometer import Point, Line
    l, p = _line(ctx), _point(ctx)
    le, pe = E(l), E(p)
    m = Line(l).parallel(Point(p))
    me = E(m)
    ctx.require("parallel:nonzero", R.nonzero(ctx, me))
    ctx.require("parallel:through-point", ctx.is_zero(R.dot(me, pe)))
    ctx.require("parallel:same-direction", ctx.is_zero(me[0] * le[1] - me[1] * le[0]))


def case_project(ctx):
    from geometer import Point, Line
    l, p = _line(ctx), _point(ctx)
    le, pe = E(l), E(p)
    on = ctx.fork(ctx.is_zero(R.dot(le, pe)))
    x = Line(l).project(Point(p))
    xe = E(x)
    ctx.outcome(f"on-line={on}")
    ctx.require("project:nonzero", R.nonzero(ctx, xe))
    ctx.require("project:on-line", ctx.is_zero(R.dot(le, xe)))
    # (p - x) parallel to the normal (l0, l1): (px*xw - xx*pw, py*xw - xy*pw) x (l0, l1) = 0
    dx = pe[0] * xe[2] - xe[0] * pe[2]
    dy = pe[1] * xe[2] - xe[1] * pe[2]
    ctx.require("project:foot-of-perpendicular", ctx.is_zero(dx * le[1] - dy * le[0]))
    ctx.require("project:finite", ctx.neg(ctx.is_zero(xe[2])))


def case_mirror(ctx):
    from geometer import Point, Line
    l, p = _line(ctx), _point(ctx)
    le, pe = E(l), E(p)
    ctx.assume(ctx.neg(ctx.is_zero(R.dot(le, pe))))
    L, P = Line(l), Point(p)
    q = L.mirror(P)
    qe = E(q)
    ctx.require("mirror:nonzero", R.nonzero(ctx, qe))
    # reference reflection: q = p - 2 (l.p)/(l0^2+l1^2) (l0, l1) in Cartesian terms; homogeneous: q ~ (n2 p_x - 2 lp l0, n2 p_y - 2 lp l1, n2 p_w)
    n2 = le[0] * le[0] + le[1] * le[1]
    lp = R.dot(le, pe)
    ref = [n2 * pe[0] - 2 * lp * le[0], n2 * pe[1] - 2 * lp * le[1], n2 * pe[2]]
    ctx.require("mirror:is-reflection", R.proportional(ctx, qe, ref))


def case_predicates(ctx):
    from geometer import Point, Line, is_perpendicular, is_collinear, is_concurrent
    l, m = _line(ctx, "l"), _line(ctx, "m")
    le, me = E(l), E(m)
    ctx.assume(ctx.neg(R.proportional(ctx, le, me)))
    L, M = Line(l), Line(m)
    ctx.require("is_perpendicular:iff", ctx.iff(ctx.truth(is_perpendicular(L, M)), ctx.is_zero(le[0] * me[0] + le[1] * me[1])))
    ctx.require("is_parallel:iff", ctx.iff(ctx.truth(L.is_parallel(M)), ctx.is_zero(le[0] * me[1] - le[1] * me[0])))
    p, q, r = (_point(ctx, k, finite=False) for k in "pqr")
    d = R.det([E(p), E(q), E(r)])
    ctx.require("is_collinear:iff", ctx.iff(ctx.truth(is_collinear(Point(p), Point(q), Point(r))), ctx.is_zero(d)))
    n = _line(ctx, "n", finite=False)
    d2 = R.det([le, me, E(n)])
    ctx.require("is_concurrent:iff", ctx.iff(ctx.truth(is_concurrent(L, M, Line(n))), ctx.is_zero(d2)))


def case_cocircular(ctx):
    from geometer import Point, is_cocircular
    P = [_point(ctx, k) for k in "abcd"]
    pts = [E(p) for p in P]
    for i in range(4):
        for j in range(i + 1, 4):
            ctx.assume(ctx.neg(R.proportional(ctx, pts[i], pts[j])))
    rows = [[x * x + y * y, x * w, y * w, w * w] for x, y, w in pts]
    D = R.det(rows)
    r = is_cocircular(*[Point(p) for p in P])
    if ctx.symbolic and getattr(r, "val", 0) is None or not ctx.symbolic:
        ctx.require("is_cocircular:iff-circle-determinant", ctx.iff(ctx.truth(r), ctx.is_zero(D)))


def case_base_point_direction(ctx):
    from geometer import Line
    l = _nz(ctx, vec(ctx, "l", 3))
    le = E(l)
    L = Line(l)
    b = L.base_point
    be = E(b)
    ctx.outcome("path")
    ctx.require("base_point:nonzero", R.nonzero(ctx, be))
    ctx.require("base_point:on-line", ctx.is_zero(R.dot(le, be)))
    finite_line = ctx.neg(ctx.all([ctx.is_zero(le[0]), ctx.is_zero(le[1])]))
    ctx.require("base_point:finite-for-finite-line", ctx.implies(finite_line, ctx.neg(ctx.is_zero(be[2]))))
    d = L.direction
    de = E(d)
    ctx.require("direction:nonzero", R.nonzero(ctx, de))
    ctx.require("direction:on-line", ctx.is_zero(R.dot(le, de)))
    ctx.require("direction:at-infinity", ctx.is_zero(de[2]))
    g = L.general_point
    ge = E(g)
    ctx.require("general_point:not-on-line", ctx.neg(ctx.is_zero(R.dot(le, ge))))


def case_basis_matrix(ctx):
    from geometer import Line
    l = _line(ctx)
    le = E(l)
    B = Line(l).basis_matrix
    Bm = R.mat(B)
    ctx.require("basis_matrix:shape", len(Bm) == 2 and len(Bm[0]) == 3)
    for i in range(2):
        ctx.require(f"basis_matrix:row{i}-on-line", ctx.is_zero(R.dot(le, Bm[i])))
        ctx.require(f"basis_matrix:row{i}-unit", ctx.eq(R.dot(Bm[i], Bm[i]), 1))
    ctx.require("basis_matrix:rows-orthogonal", ctx.is_zero(R.dot(Bm[0], Bm[1])))


def case_basis_matrix_collection(ctx):
    """the same statement for a LineCollection of two free lines (the norms are taken per element)"""
    from geometer import LineCollection
    ls = [_line(ctx, "l"), _line(ctx, "m")]
    C = LineCollection(np.stack([np.asarray(x) for x in ls]))
    B = C.basis_matrix
    ctx.require("basis_matrix[collection]:shape", tuple(B.shape) == (2, 2, 3))
    if tuple(B.shape) != (2, 2, 3):
        return
    for k in range(2):
        le, Bm = E(ls[k]), R.mat(B[k])
        for i in range(2):
            ctx.require(f"basis_matrix[collection]:pos{k}:row{i}-on-line", ctx.is_zero(R.dot(le, Bm[i])))
            ctx.require(f"basis_matrix[collection]:pos{k}:row{i}-unit", ctx.eq(R.dot(Bm[i], Bm[i]), 1))
        ctx.require(f"basis_matrix[collection]:pos{k}:rows-orthogonal", ctx.is_zero(R.dot(Bm[0], Bm[1])))
    G = C.general_point
    for k in range(2):
        ctx.require(f"general_point[collection]:pos{k}:not-on-line", ctx.neg(ctx.is_zero(R.dot(E(ls[k]), E(G.array[k])))))


def case_plane_constructions(ctx):
    from geometer import Point, Plane
    e = _nz(ctx, vec(ctx, "e", 4))
    ee = E(e)
    ctx.assume(ctx.neg(ctx.all([ctx.is_zero(x) for x in ee[:3]])))
    p = _nz(ctx, vec(ctx, "p", 4))
    pe = E(p)
    ctx.assume(ctx.neg(ctx.is_zero(pe[3])))
    Epl, P = Plane(e), Point(p)
    # perpendicular line through p: contains p and the point at infinity (e0,e1,e2,0)
    ln = Epl.perpendicular(P)
    M = R.mat(ln.array)
    nrm = [ee[0], ee[1], ee[2], 0]
    ctx.require("plane.perpendicular:through-point", ctx.all([ctx.is_zero(z) for z in R.matvec(M, pe)]))
    ctx.require("plane.perpendicular:normal-direction", ctx.all([ctx.is_zero(z) for z in R.matvec(M, nrm)]))
    ctx.require("plane.perpendicular:nonzero", R.nonzero(ctx, [x for r in M for x in r]))
    par = Epl.parallel(P)
    pa = E(par)
    ctx.require("plane.parallel:through-point", ctx.is_zero(R.dot(pa, pe)))
    ctx.require("plane.parallel:same-normal", R.proportional(ctx, pa[:3], ee[:3]))
    ctx.require("plane.parallel:nonzero", R.nonzero(ctx, pa[:3]))
    x = Epl.project(P)
    xe = E(x)
    ctx.require("plane.project:in-plane", ctx.is_zero(R.dot(ee, xe)))
    diff = [pe[i] * xe[3] - xe[i] * pe[3] for i in range(3)]
    ctx.require("plane.project:foot-of-perpendicular", R.proportional(ctx, diff, ee[:3]))
    ctx.require("plane.project:nonzero", R.nonzero(ctx, xe))


def case_collinear4_collections(ctx):
    """is_collinear with more than dim+1 arguments, on collections: positionwise the rank condition"""
    from geometer import PointCollection, is_collinear
    cols = {k: [_point(ctx, f"{k}{i}", finite=False) for i in range(2)] for k in "abcd"}
    args = [PointCollection(np.stack(cols[k])) for k in "abcd"]
    for i in range(2):
        # the first two points distinct (with a = b the library's auxiliary join vanishes and it answers True: documented as outside this check)
        ctx.assume(ctx.neg(R.proportional(ctx, E(cols["a"][i]), E(cols["b"][i]))))
    r = is_collinear(*args)
    for i in range(2):
        rows = [E(cols[k][i]) for k in "abcd"]
        ref = R.rank_deficient(ctx, rows[:3] + [rows[3]]) if False else ctx.all([ctx.is_zero(R.det([rows[x], rows[y], rows[z]])) for x, y, z in ((0, 1, 2), (0, 1, 3), (0, 2, 3), (1, 2, 3))])
        ctx.require(f"is_collinear(4 collections)[{i}]:iff-rank<=2", ctx.iff(ctx.truth(r[i]), ref))


def case_perpendicular_3d(ctx):
    """two lines of 3-space through the lattice point A with directions u (lattice) and v (free): perpendicular iff u.v = 0"""
    from geometer import Point, Line, is_perpendicular
    A = [10, 10, 10]
    u = [1, -1, 0]
    v = [ctx.real(f"v_{i}") for i in range(3)]
    ctx.assume(R.nonzero(ctx, v))
    ctx.assume(ctx.neg(R.proportional(ctx, u, v)))
    l = Line(Point(*[float(x) for x in A]), Point(*[float(A[i] + u[i]) for i in range(3)]))
    m = Line(Point(*[float(x) for x in A]), Point(mk_array(ctx, [A[i] + v[i] for i in range(3)] + [1])))
    r = is_perpendicular(l, m)
    ctx.require("is_perpendicular-3d:iff-dot-product-zero", ctx.iff(ctx.truth(r), ctx.is_zero(sum(u[i] * v[i] for i in range(3)))))


def mk_perpendicular_3d_one_free(k):
    """as perpendicular_3d with a direction v that has one free real component"""
    CONF = [((10, 10, 10), (1, -1, 0), (None, 1, -2)), ((0, 0, 0), (2, 1, -1), (1, None, 3)), ((1, -2, 3), (0, 1, 1), (2, 1, None))]

    def case(ctx):
        from geometer import Point, Line, is_perpendicular
        A, u, v3 = CONF[k]
        s_ = ctx.real("s")
        v = [s_ if x is None else x for x in v3]
        ctx.assume(ctx.neg(R.proportional(ctx, list(u), v)))
        l = Line(Point(*[float(x) for x in A]), Point(*[float(A[i] + u[i]) for i in range(3)]))
        m = Line(Point(*[float(x) for x in A]), Point(mk_array(ctx, [A[i] + v[i] for i in range(3)] + [1])))
        r = is_perpendicular(l, m)
        ctx.require("is_perpendicular-3d:iff-dot-product-zero", ctx.iff(ctx.truth(r), ctx.is_zero(sum(u[i] * v[i] for i in range(3)))))
    return case


def mk_line3d_constructions(k):
    """lattice line of 3-space, point with one free coordinate off the line: perpendicular(p) passes through p, meets the line at right angles; project(p) is that foot"""
    CONF = [((0, 0, 0), (1, 0, 0), (None, 2, 1)), ((1, 2, -1), (1, -1, 2), (3, None, 0)), ((0, 1, 0), (2, 2, 1), (1, 1, None))]

    def case(ctx):
        from geometer import Point, Line
        if ctx.symbolic:
            from symgeo import symnp
            symnp.SVD_RANK["rank"] = 2      # a line of 3-space: rank-2 tensor, two-dimensional kernel (assumption of the SVD contract stub)
        A, u, p3 = CONF[k]
        s_ = ctx.real("s")
        p = [s_ if x is None else x for x in p3]
        ap = [p[i] - A[i] for i in range(3)]
        # p off the line
        ctx.assume(ctx.neg(R.proportional(ctx, list(u), ap)))
        L = Line(Point(*[float(x) for x in A]), Point(*[float(A[i] + u[i]) for i in range(3)]))
        P = Point(mk_array(ctx, p + [1]))
        uu = sum(x * x for x in u)
        t = sum(ap[i] * u[i] for i in range(3))
        foot = [uu * A[i] + t * u[i] for i in range(3)] + [uu]          # homogeneous foot of the perpendicular
        f = L.project(P)
        ctx.require("line3d:project-is-the-foot", R.proportional(ctx, E(f), foot))
        m = L.perpendicular(P)
        ctx.require("line3d:perpendicular-contains-p", ctx.truth(m.contains(P)))
        ctx.require("line3d:perpendicular-contains-the-foot", ctx.truth(m.contains(Point(mk_array(ctx, foot)))))
    return case


def case_perpendicular_3d_lattice(ctx):
    """lattice lines through (10,10,10) in the tilted plane x+y+z=30 (offset larger than every normal component)"""
    from geometer import Point, Line, is_perpendicular
    A = [10.0, 10.0, 10.0]
    for u, v, expect in (((1, -1, 0), (1, 1, -2), True), ((1, -1, 0), (1, 0, -1), False), ((2, -1, -1), (0, 1, -1), True)):
        l = Line(Point(*A), Point(*[A[i] + u[i] for i in range(3)]))
        m = Line(Point(*A), Point(*[A[i] + v[i] for i in range(3)]))
        r = is_perpendicular(l, m)
        ctx.require(f"is_perpendicular-3d-lattice{u}{v}", ctx.iff(ctx.truth(r), expect))


def _cdot2(a, b):
    return a[0] * b[0] + a[1] * b[1]


def mk_angle_bisectors(k):
    """lattice line l, line m through a lattice point with one free real slope parameter (not parallel to l): the two returned lines pass through
    the vertex, are perpendicular to each other, are (complex multiples of) real lines and make equal angles with l and m"""
    CONF = [((1, -1, 0), (0, 0)), ((1, 2, -3), (1, 1)), ((0, 1, -2), (3, 2)), ((2, -1, 4), (-1, 2))]

    def case(ctx):
        from geometer import Line, angle_bisectors
        lv, (ox, oy) = CONF[k]
        s_ = ctx.real("s")
        # m: direction (1, s) through (ox, oy):  s x - y + (oy - s ox) = 0  (k odd: direction (s, 1):  x - s y + (s oy - ox) = 0)
        mv = [s_, -1, oy - s_ * ox] if k % 2 == 0 else [1, -s_, s_ * oy - ox]
        ctx.assume(ctx.neg(ctx.is_zero(lv[0] * mv[1] - lv[1] * mv[0])))
        l, m = Line(np.array(lv, dtype=float)), Line(mk_array(ctx, mv))
        o = [1.0 * ox, 1.0 * oy, 1.0]
        bs = angle_bisectors(l, m)
        ctx.require("angle_bisectors:two-lines", len(bs) == 2)
        be = [E(b) for b in bs]
        nl2, nm2 = _cdot2(lv, lv), _cdot2(mv, mv)
        for i, b in enumerate(be):
            ctx.require(f"angle_bisectors[{i}]:nonzero", R.nonzero(ctx, b))
            ctx.require(f"angle_bisectors[{i}]:through-vertex", ctx.is_zero(R.dot(b, o)))
            # equal angles with l and m:  (b.l)^2 |m|^2 = (b.m)^2 |l|^2  on the normal vectors (homogeneous in b, so a complex multiple does not matter)
            bl, bm = _cdot2(b, lv), _cdot2(b, mv)
            ctx.require(f"angle_bisectors[{i}]:equal-angles", ctx.is_zero(bl * bl * nm2 - bm * bm * nl2))
            # a real line up to a complex factor: b x conj(b) = 0, written on real and imaginary parts
            re_, im_ = [_re(ctx, x) for x in b], [_im(ctx, x) for x in b]
            ctx.require(f"angle_bisectors[{i}]:real-line", R.proportional(ctx, re_, im_) if ctx.symbolic else bool(np.allclose(np.cross(re_, im_), 0)))
        ctx.require("angle_bisectors:mutually-perpendicular", ctx.is_zero(_cdot2(be[0], be[1])))
        ctx.require("angle_bisectors:distinct", ctx.neg(R.proportional(ctx, be[0], be[1])))
    return case


def _im(ctx, x):
    if ctx.symbolic:
        from symgeo.alg import Cx
        return x.im if isinstance(x, Cx) else 0 * x
    return np.imag(x)


def case_is_coplanar_3d(ctx):
    """four / five free points of 3-space: is_coplanar iff every 4x4 determinant vanishes"""
    from geometer import Point, is_coplanar
    P = [_nz(ctx, vec(ctx, k, 4)) for k in "abcd"]
    rows = [E(p) for p in P]
    r = is_coplanar(*[Point(p) for p in P])
    ctx.require("is_coplanar-3d:iff-det-zero", ctx.iff(ctx.truth(r), ctx.is_zero(R.det(rows))))


def mk_angle_bisectors_3d(k):
    """two lines of 3-space through a lattice point A, directions u (lattice) and v (one free component): both returned lines pass through A,
    lie in the plane of l and m, are perpendicular and make equal angles with l and m"""
    CONF = [((0, 0, 0), (1, 0, 0), (None, 1, 0)), ((1, 2, -1), (1, -1, 2), (3, None, 0)), ((10, 10, 10), (1, -1, 0), (1, 1, None))]

    def case(ctx):
        from geometer import Point, Line, angle_bisectors
        A, u, v3 = CONF[k]
        s_ = ctx.real("s")
        v = [s_ if x is None else x for x in v3]
        ctx.assume(ctx.neg(R.proportional(ctx, list(u), v)))
        l = Line(Point(*[float(x) for x in A]), Point(*[float(A[i] + u[i]) for i in range(3)]))
        m = Line(Point(*[float(x) for x in A]), Point(mk_array(ctx, [A[i] + v[i] for i in range(3)] + [1])))
        bs = angle_bisectors(l, m)
        Ah = [float(x) for x in A] + [1.0]
        uu, vv = sum(x * x for x in u), sum(x * x for x in v)
        ds = []
        for i, b in enumerate(bs):
            M = R.mat(b.array)
            ctx.require(f"angle_bisectors3d[{i}]:nonzero", R.nonzero(ctx, [x for r in M for x in r]))
            ctx.require(f"angle_bisectors3d[{i}]:through-vertex", ctx.all([ctx.is_zero(z) for z in R.matvec(M, Ah)]))
            d = E(b.meet(__import__("geometer").point.infty_plane))
            ds.append(d)
            ctx.require(f"angle_bisectors3d[{i}]:direction-at-infinity", ctx.is_zero(d[3]))
            du, dv = sum(d[j] * u[j] for j in range(3)), sum(d[j] * v[j] for j in range(3))
            ctx.require(f"angle_bisectors3d[{i}]:equal-angles", ctx.is_zero(du * du * vv - dv * dv * uu))
            ctx.require(f"angle_bisectors3d[{i}]:in-the-plane-of-l-and-m", ctx.is_zero(R.det([list(u), v, d[:3]])))
        ctx.require("angle_bisectors3d:mutually-perpendicular", ctx.is_zero(sum(ds[0][j] * ds[1][j] for j in range(3))))
    return case


def mk_plane_mirror(k):
    """lattice plane of 3-space, point with one free coordinate: mirror(p) is the Euclidean reflection  p - 2 (e.p)/|n|^2 n  (which is an involution with the
    projection as midpoint)"""
    CONF = [((0, 0, 1, 0), (None, 1, 2)), ((1, 1, 1, -3), (2, None, 0)), ((1, 2, -2, 4), (1, 1, None)), ((1, 0, 0, -2), (None, 3, -1))]

    def case(ctx):
        from geometer import Point, Plane
        if ctx.symbolic:
            from symgeo import symnp
            symnp.SVD_RANK["rank"] = 2
        e, p3 = CONF[k]
        s_ = ctx.real("s")
        p = [s_ if x is None else x for x in p3] + [1]
        ep = sum(e[i] * p[i] for i in range(4))
        ctx.assume(ctx.neg(ctx.is_zero(ep)))
        q = Plane(np.array(e, dtype=float)).mirror(Point(mk_array(ctx, p)))
        n2 = sum(x * x for x in e[:3])
        ref = [n2 * p[i] - 2 * ep * e[i] for i in range(3)] + [n2]
        qe = E(q)
        if len(qe) != 4:
            qe = E(q.array[0]) if hasattr(q, "array") else qe
        ctx.require("plane.mirror:nonzero", R.nonzero(ctx, qe))
        ctx.require("plane.mirror:is-reflection", R.proportional(ctx, qe, ref))
    return case


def cases(tier, seed):
    Q, T = ("quick", "thorough"), ("thorough",)
    cs = []

    def add(name, fn, **kw):
        cs.append(Case(name, fn, setup=_setup, **kw))
    add("perpendicular_2d", case_perpendicular, tiers=Q, max_paths=2000)
    add("parallel_2d", case_parallel, tiers=Q)
    add("project_2d", case_project, tiers=Q, max_paths=2000)
    add("mirror_2d", case_mirror, tiers=Q, max_paths=2000)
    add("predicates_2d", case_predicates, tiers=Q, max_paths=2000)
    add("cocircular_2d", case_cocircular, tiers=Q, max_paths=2000)
    add("base_point_direction_2d", case_base_point_direction, tiers=Q, max_paths=2000)
    add("basis_matrix_2d", case_basis_matrix, tiers=Q, max_paths=2000)
    add("basis_matrix_2d_collection", case_basis_matrix_collection, tiers=Q, max_paths=2000)
    add("plane_constructions_3d", case_plane_constructions, tiers=Q, max_paths=2000)
    add("collinear4_collections", case_collinear4_collections, tiers=Q, max_paths=2000)
    add("perpendicular_3d_lattice", case_perpendicular_3d_lattice, tiers=Q, max_paths=2000)
    add("perpendicular_3d", case_perpendicular_3d, tiers=T, max_paths=2000)
    for k in range(3):
        add(f"perpendicular_3d_one_free{k}", mk_perpendicular_3d_one_free(k), tiers=Q if k == 0 else ("attempt",), max_paths=2000)
        add(f"line3d_constructions{k}", mk_line3d_constructions(k), tiers=("attempt",), max_paths=2000)
    for k in range(4):
        add(f"angle_bisectors_2d_{k}", mk_angle_bisectors(k), tiers=Q, max_paths=2000)
    for k in range(3):
        add(f"angle_bisectors_3d_{k}", mk_angle_bisectors_3d(k), tiers=T if k == 0 else ("attempt",), max_paths=2000)
    for k in range(4):
        add(f"plane_mirror_3d_{k}", mk_plane_mirror(k), tiers=Q if k in (0, 3) else T, max_paths=2000)
    add("is_coplanar_3d", case_is_coplanar_3d, tiers=Q, max_paths=2000)
    return cs
