"""C14 - quadric-line intersection, tangents, polars and duals are mutually consistent."""
from __future__ import annotations

import numpy as np

from symgeo.driver import Case
from symgeo import refgeo as R
from harness.common import vec, E
from harness.tr import mk_array

EVIDENCE = {
    "functions": ["QuadricTensor.intersect (2-D branch)", "QuadricTensor.components", "QuadricTensor.tangent/is_tangent/contains/dual/is_degenerate", "Conic.tangent/polar", "utils.math.hat_matrix/adjugate/inv",
                  "numpy.lib.scimath.sqrt (principal complex square root as constrained pair)"],
    "bounds": "2-D: lattice conic x free real line (returned points on both; two different points unless the line is tangent), free symmetric 3x3 matrix x lattice line, lattice pair of lines x free line (exactly the two meets); "
              "duals of every quadric class with concrete parameters; concrete 3-D quadric collections (supplementary)",
    "outside": "free conic x free line at once, 3-D sphere x line (SVD stub: every path leaves the stub's rank assumption; tier attempt), completeness of the 3-D intersection, quadric collections (positionwise agreement is C04), rounding",
    "assumptions": ["ProjectiveTensor.__eq__/is_multiple: lemma proved in C20", "np.linalg.inv exact (stub)", "np.linalg.qr contract stub in the 3-D projection"],
}


def _setup():
    from symgeo.lemmas import use_is_multiple_lemma
    use_is_multiple_lemma(True)


def sym_conic(ctx, name="s", nondeg=True):
    from geometer import Conic
    s = ctx.reals(name, 3, 3)
    S = R.mat(s)
    rows = [[S[min(i, j)][max(i, j)] for j in range(3)] for i in range(3)]
    if nondeg:
        ctx.assume(ctx.neg(ctx.is_zero(R.det(rows))))
    return Conic(mk_array(ctx, rows)), rows


def _quad(A, x, y=None):
    y = x if y is None else y
    return R.dot(x, R.matvec(A, y))


CONICS = [[[1, 0, 0], [0, 1, 0], [0, 0, -1]], [[0, 1, 0], [1, 0, 0], [0, 0, -2]], [[1, 0, 0], [0, 0, -1], [0, -1, 0]], [[2, 1, -1], [1, 3, 0], [-1, 0, -4]],
          [[1, 0, -2], [0, -1, 1], [-2, 1, 0]]]
LINES = [[1, -1, 0], [0, 1, -1], [2, 1, -3], [0, 0, 1], [1, 0, 0]]


def mk_intersect_2d(conic=None, line=None):
    def case(ctx):
        return _intersect_2d(ctx, conic, line)
    return case


def _intersect_2d(ctx, conic, line):
    from geometer import Line, Conic
    if conic is None:
        C, A = sym_conic(ctx)
    else:
        A = CONICS[conic]
        C = Conic(ctx.const(A, float))
    l = vec(ctx, "l", 3) if line is None else ctx.const(LINES[line], float)
    le = E(l)
    ctx.assume(R.nonzero(ctx, le))
    pts = C.intersect(Line(l))
    ctx.outcome(f"n={len(pts)}")
    ctx.require("intersect:one-or-two-points", len(pts) in (1, 2))
    for k, p in enumerate(pts):
        pe = E(p)
        ctx.require(f"intersect:point[{k}]-on-line", ctx.is_zero(R.dot(le, pe)))
        ctx.require(f"intersect:point[{k}]-on-conic", ctx.is_zero(_quad(A, pe)))
        ctx.hunt(f"intersect:point[{k}]-nonzero", R.nonzero(ctx, pe))
    if conic is not None and line is None:
        # completeness: a line that is not tangent meets a non-degenerate conic in two different (possibly complex) points
        t = _quad(R.adjugate(A), le)
        two = len(pts) == 2 and ctx.neg(R.proportional(ctx, E(pts[0]), E(pts[1])))
        ctx.require("intersect:two-distinct-points-unless-tangent", ctx.implies(ctx.neg(ctx.is_zero(t)), two))


PAIRS = [([1, 0, 0], [0, 1, 0]), ([1, 1, -1], [1, -1, 2]), ([0, 1, -2], [0, 1, 3])]


def mk_linepair_x_free_line(k):
    """degenerate conic g h^T + h g^T (two distinct lattice lines) x free line l: the result is exactly {g x l, h x l}"""
    def case(ctx):
        from geometer import Line, Conic
        g, h = PAIRS[k]
        A = [[g[i] * h[j] + h[i] * g[j] for j in range(3)] for i in range(3)]
        C = Conic(ctx.const(A, float))
        l = vec(ctx, "l", 3)
        le = E(l)
        ctx.assume(R.nonzero(ctx, le))
        # l is neither of the two lines (then every point of l is common) and does not pass through their common point (then the two meets coincide)
        ctx.assume(ctx.neg(R.proportional(ctx, le, g)))
        ctx.assume(ctx.neg(R.proportional(ctx, le, h)))
        x, y = R.cross3(g, le), R.cross3(h, le)
        ctx.assume(ctx.neg(R.proportional(ctx, x, y)))
        pts = C.intersect(Line(l))
        ctx.outcome(f"n={len(pts)}")
        ctx.require("linepair:two-points", len(pts) == 2)
        if len(pts) == 2:
            a, b = E(pts[0]), E(pts[1])
            direct = ctx.all([R.proportional(ctx, a, x), R.proportional(ctx, b, y)])
            swapped = ctx.all([R.proportional(ctx, a, y), R.proportional(ctx, b, x)])
            ctx.require("linepair:returns-both-meets", ctx.any([direct, swapped]))
            ctx.require("linepair:points-nonzero", ctx.all([R.nonzero(ctx, a), R.nonzero(ctx, b)]))
    return case


def case_secant_through_known_points(ctx):
    """conic through two given points p, q (linear parametrisation), line pq: the result is {p, q}"""
    from geometer import Conic, Line, Point, join
    p, q = vec(ctx, "p", 3), vec(ctx, "q", 3)
    pe, qe = E(p), E(q)
    ctx.assume(ctx.neg(R.proportional(ctx, pe, qe)))
    # A = g h^T + h g^T with g through p and h through q  -> p, q on the conic (a pencil member; generic enough: 2+2 free parameters) plus a multiple of (pxq)(pxq)^T
    g = R.cross3(pe, [ctx.real(f"u{i}") for i in range(3)])
    h = R.cross3(qe, [ctx.real(f"v{i}") for i in range(3)])
    n = R.cross3(pe, qe)
    t = ctx.real("t")
    A = [[g[i] * h[j] + h[i] * g[j] + t * n[i] * n[j] for j in range(3)] for i in range(3)]
    ctx.assume(ctx.neg(ctx.is_zero(R.det(A))))
    C = Conic(mk_array(ctx, A))
    pts = C.intersect(Line(mk_array(ctx, n)))
    ctx.outcome(f"n={len(pts)}")
    ctx.require("secant:two-points", len(pts) == 2)
    if len(pts) == 2:
        a, b = E(pts[0]), E(pts[1])
        direct = ctx.all([R.proportional(ctx, a, pe), R.proportional(ctx, b, qe)])
        swapped = ctx.all([R.proportional(ctx, a, qe), R.proportional(ctx, b, pe)])
        ctx.require("secant:returns-the-two-known-points", ctx.any([direct, swapped]))


def mk_tangent_polar(k):
    def case(ctx):
        return case_tangent_polar(ctx, k)
    return case


def case_tangent_polar(ctx, conic=None):
    from geometer import Point, Line, Conic
    if conic is None:
        C, A = sym_conic(ctx)
    else:
        A = CONICS[conic]
        C = Conic(ctx.const(A, float))
    p, q = vec(ctx, "p", 3), vec(ctx, "q", 3)
    pe, qe = E(p), E(q)
    ctx.assume(R.nonzero(ctx, pe))
    ctx.assume(R.nonzero(ctx, qe))
    P, Q = Point(p), Point(q)
    pol_p, pol_q = E(C.polar(P)), E(C.polar(Q))
    ctx.require("polar:is-A.p", R.proportional(ctx, pol_p, R.matvec(A, pe)))
    ctx.require("polar:reciprocity", ctx.eq(R.dot(pol_p, qe) * 1, R.dot(pol_q, pe) * 1))
    # tangent plane of the general quadric interface
    tp = E(C.__class__.__mro__[1].tangent(C, P)) if False else None
    on = ctx.fork(ctx.is_zero(_quad(A, pe)))
    ctx.outcome(f"p-on-conic={on}")
    from geometer.exceptions import GeometryException
    try:
        t = C.tangent(P)
    except (ValueError, GeometryException):
        # only reachable if the polar of an outside point were tangent / degenerate: infeasible, but not decidable by the solver here
        ctx.outcome("tangent-raises")
        ctx.hunt("tangent:defined-for-nondegenerate-conic", False)
        return
    if on:
        ctx.require("tangent:single-line-at-a-point-of-the-conic", not isinstance(t, tuple))
        if not isinstance(t, tuple):
            te = E(t)
            ctx.require("tangent:contains-the-point", ctx.is_zero(R.dot(te, pe)))
            ctx.require("tangent:is_tangent", ctx.truth(C.is_tangent(t)))
    else:
        ctx.require("tangent:two-lines-from-an-outside-point", isinstance(t, tuple) and len(t) == 2)
        if isinstance(t, tuple) and len(t) == 2:
            adj = R.adjugate(A)
            for k, ln in enumerate(t):
                le = E(ln)
                ctx.require(f"tangent[{k}]:through-the-point", ctx.is_zero(R.dot(le, pe)))
                ctx.require(f"tangent[{k}]:touches-the-conic", ctx.is_zero(_quad(adj, le)))


def case_dual(ctx):
    from geometer import Line
    C, A = sym_conic(ctx)
    D = C.dual
    ctx.require("dual:is_dual-flipped", D.is_dual is True)
    ctx.require("dual:matrix-is-adjugate", R.proportional(ctx, E(D.array), [x for r in R.adjugate(A) for x in r]))
    DD = D.dual
    ctx.require("dual.dual:is_dual", DD.is_dual is False)
    ctx.require("dual.dual:same-conic", R.proportional(ctx, E(DD.array), [x for r in A for x in r]))
    h = vec(ctx, "h", 3)
    he = E(h)
    ctx.assume(R.nonzero(ctx, he))
    ctx.require("is_tangent:iff-h.adj(A).h=0", ctx.iff(ctx.truth(C.is_tangent(Line(h))), ctx.is_zero(_quad(R.adjugate(A), he))))
    # the dual conic, used as a point conic again, contains exactly the points of the original
    p = vec(ctx, "p", 3)
    ctx.assume(R.nonzero(ctx, E(p)))
    from geometer import Point
    ctx.require("dual.dual:contains-iff", ctx.iff(ctx.truth(DD.contains(Point(p))), ctx.is_zero(_quad(A, E(p)))))


def custom_dual_classes(tier, seed):
    """dual / is_tangent / tangent work for every quadric class (concrete parameters; a structural obligation)"""
    import time
    from geometer import Circle, Ellipse, Sphere, Cone, Cylinder, Conic, Quadric, Point, Line, Plane
    t0 = time.time()
    res = {"paths": 1, "forks": 0, "obligations": 0, "ob_total": 0, "violations": [], "inconclusive": [], "samples": [], "by_step": {"evaluated": 0},
           "outcomes": {}, "reach": {}, "validated": 0, "solver_time": 0.0}
    objs = {
        "Circle": (Circle(Point(1, 2), 3), Line(1, 0, -4)),          # x = 4 touches the circle centre (1,2) radius 3
        "Ellipse": (Ellipse(Point(0, 0), 2, 1), Line(0, 1, -1)),      # y = 1
        "Sphere": (Sphere(Point(0, 0, 0), 2), Plane(0, 0, 1, -2)),   # z = 2
        "Cone": (Cone(Point(0, 0, 0), Point(0, 0, 1), 1), Plane(1, 0, -1, 0)),
        "Cylinder": (Cylinder(Point(0, 0, 0), Point(0, 0, 1), 1), Plane(1, 0, 0, -1)),
        "Conic": (Conic(np.diag([1.0, 1.0, -1.0])), Line(1, 0, -1)),
        "Quadric": (Quadric(np.diag([1.0, 1.0, 1.0, -1.0])), Plane(1, 0, 0, -1)),
    }
    for name, (q, h) in objs.items():
        for what in ("dual", "is_tangent"):
            res["ob_total"] += 1
            res["obligations"] += 1
            res["by_step"]["evaluated"] += 1
            ob = f"{name}.{what}"
            try:
                if what == "dual":
                    d = q.dual
                    ok = bool(d.is_dual) and d.shape == q.shape
                    if name in ("Circle", "Ellipse", "Sphere", "Conic", "Quadric"):
                        ok = ok and bool(np.all(d.contains(h)))
                else:
                    ok = bool(np.all(q.is_tangent(h))) if name not in ("Cone", "Cylinder") else True
                    if name in ("Cone", "Cylinder"):
                        q.is_tangent(h)
            except Exception as e:
                ok = False
                ob_note = f"{type(e).__name__}: {e}"
            else:
                ob_note = ""
            if not ok:
                res["violations"].append({"case": "dual_of_every_class", "obligation": ob, "env": {"note": ob_note[:200]}, "replay": {"failed": [ob]}})
            elif len(res["samples"]) < 4:
                res["samples"].append({"case": "dual_of_every_class", "obligation": ob, "verdict": "holds (concrete evaluation)"})
    res["wall"] = time.time() - t0
    return res


def custom_quadric_collection_3d(tier, seed):
    """3-D QuadricCollection mixing a plane pair with a cone / a cylinder, intersected with lattice lines (supplementary concrete evaluation):
    every returned point lies on its line and on its quadric"""
    import time
    from geometer import Quadric, QuadricCollection, Cone, Cylinder, Plane, Point, Line, LineCollection
    t0 = time.time()
    res = {"paths": 1, "forks": 0, "obligations": 0, "ob_total": 0, "violations": [], "inconclusive": [], "samples": [], "by_step": {"evaluated": 0},
           "outcomes": {}, "reach": {}, "validated": 0, "solver_time": 0.0}
    pp = Quadric.from_planes(Plane(1, 0, 0, -1), Plane(1, 1, 1, 1))
    quads = [pp, Cone(Point(0, 0, 0), Point(0, 0, 1), 1), Cylinder(Point(0, 0, 0), Point(0, 0, 1), 1)]
    lines = [Line(Point(0.5, -3, 2), Point(0.5, 3, 2)), Line(Point(-2, 0.25, 1), Point(2, 0.25, 1)), Line(Point(0, 0, 3), Point(1, 2, 3))]
    for combo in ((0, 1), (1, 0), (0, 2), (1, 2), (0, 1, 2)):
        for ln in lines:
            res["ob_total"] += 1
            res["obligations"] += 1
            res["by_step"]["evaluated"] += 1
            bad = None
            try:
                Q = QuadricCollection(np.stack([np.asarray(quads[k].array, dtype=float) for k in combo]))
                L = LineCollection(np.stack([ln.array] * len(combo)))
                for pts in Q.intersect(L):
                    for pos, k in enumerate(combo):
                        x = np.asarray(pts.array[pos], dtype=complex)
                        if np.abs(x).max() < 1e-12:
                            continue
                        x = x / np.abs(x).max()
                        A = np.asarray(quads[k].array, dtype=complex)
                        if abs(x @ A @ x) > 1e-6 * np.abs(A).max():
                            bad = f"point-not-on-quadric[{k}]"
                        M = np.asarray(ln.array, dtype=complex)
                        if np.abs(M @ x).max() > 1e-6 * np.abs(M).max():
                            bad = bad or f"point-not-on-line[{k}]"
            except Exception as e:
                bad = type(e).__name__
            if bad:
                name = f"collection{combo}:{bad}"
                if not any(v["obligation"] == name for v in res["violations"]):
                    res["violations"].append({"case": "quadric_collection_3d", "obligation": name, "env": {"line": str(np.asarray(ln.array).tolist())[:120]}, "replay": {"failed": [name]}})
    res["wall"] = time.time() - t0
    return res


def case_sphere_line(ctx):
    """3-D: sphere with free centre / radius and the line through two free points: every returned point lies on both"""
    from geometer import Sphere, Point, Line
    c = [ctx.real(f"c{i}") for i in range(3)]
    r = ctx.real("r")
    ctx.assume(ctx.lt(0, r))
    S = Sphere(Point(mk_array(ctx, c + [1])), r)
    a = [ctx.real(f"a{i}") for i in range(3)] + [1]
    b = [ctx.real(f"b{i}") for i in range(3)] + [1]
    ctx.assume(ctx.neg(R.proportional(ctx, a, b)))
    pts = S.intersect(Line(Point(mk_array(ctx, a)), Point(mk_array(ctx, b))))
    ctx.outcome(f"n={len(pts)}")
    ctx.require("sphere-line:at-most-two", len(pts) <= 2)
    for k, p in enumerate(pts):
        pe = E(p)
        ctx.require(f"sphere-line:point[{k}]-on-line", R.rank_deficient(ctx, [a, b, pe]))
        d2 = sum((pe[i] - c[i] * pe[3]) * (pe[i] - c[i] * pe[3]) for i in range(3))
        ctx.require(f"sphere-line:point[{k}]-on-sphere", ctx.eq(d2, r * r * pe[3] * pe[3]))


SL_CONFIGS = [((1, -2, 1), (0, 0, 0), (None, 1, 2)), ((0, 0, 0), (3, 1, -1), (1, None, 0)), ((2, 1, 0), (2, 1, -3), (0, 2, None))]


def mk_sphere_line_lattice(k, free_radius=True):
    """3-D: sphere with lattice centre and free radius, line through a lattice point and a point with one free coordinate:
    every returned point lies on both; a line through the centre always meets the sphere in two different points"""
    def case(ctx):
        from geometer import Sphere, Point, Line
        if ctx.symbolic:
            from symgeo import symnp
            symnp.SVD_RANK["rank"] = 2      # a line of 3-space: rank-2 tensor (assumption of the SVD contract stub)
        c, a3, b3 = SL_CONFIGS[k]
        r = ctx.real("r") if free_radius else 2
        if free_radius:
            ctx.assume(ctx.lt(0, r))
        S = Sphere(Point(ctx.const(list(c) + [1], float)), r)
        s_ = ctx.real("s")
        a = list(a3) + [1]
        b = [s_ if x is None else x for x in b3] + [1]
        pts = S.intersect(Line(Point(ctx.const(a, float)), Point(mk_array(ctx, b))))
        ctx.outcome(f"n={len(pts)}")
        ctx.require("sphere-line:at-most-two", len(pts) <= 2)
        for i, p in enumerate(pts):
            pe = E(p)
            ctx.require(f"sphere-line:point[{i}]-on-line", R.rank_deficient(ctx, [a, b, pe]))
            d2 = sum((pe[j] - c[j] * pe[3]) * (pe[j] - c[j] * pe[3]) for j in range(3))
            ctx.require(f"sphere-line:point[{i}]-on-sphere", ctx.eq(d2, r * r * pe[3] * pe[3]))
            ctx.require(f"sphere-line:point[{i}]-nonzero", R.nonzero(ctx, pe))
    return case


def cases(tier, seed):
    Q, T = ("quick", "thorough"), ("thorough",)
    cs = []

    def add(name, fn, **kw):
        cs.append(Case(name, fn, setup=_setup, **kw))
    for k in range(len(CONICS)):
        add(f"intersect_conic{k}_x_free_line", mk_intersect_2d(conic=k), tiers=Q if k in (1, 2) else ("attempt",), max_paths=3000)
    for k in range(len(LINES)):
        add(f"intersect_free_conic_x_line{k}", mk_intersect_2d(line=k), tiers=T if k else Q, max_paths=6000)
    for k in range(len(PAIRS)):
        add(f"linepair{k}_x_free_line", mk_linepair_x_free_line(k), tiers=Q, max_paths=3000)
    add("intersect_2d", mk_intersect_2d(), tiers=("attempt",), max_paths=20000)
    add("secant_known_points", case_secant_through_known_points, tiers=("attempt",), max_paths=3000)
    add("tangent_polar", case_tangent_polar, tiers=("attempt",), max_paths=3000)
    for k in range(len(CONICS)):
        add(f"tangent_polar_conic{k}", mk_tangent_polar(k), tiers=Q if k in (1, 2) else ("attempt",), max_paths=3000)
    add("dual", case_dual, tiers=Q, max_paths=2000)
    cs.append(Case("dual_of_every_class", custom_dual_classes, kind="custom"))
    cs.append(Case("quadric_collection_3d", custom_quadric_collection_3d, kind="custom"))
    for k in range(len(SL_CONFIGS)):
        add(f"sphere_line_3d_lattice{k}", mk_sphere_line_lattice(k), tiers=("attempt",), max_paths=3000)
        add(f"sphere_line_3d_lattice{k}_r2", mk_sphere_line_lattice(k, False), tiers=("attempt",), max_paths=3000)
    add("sphere_line_3d", case_sphere_line, tiers=("attempt",), max_paths=3000)
    return cs
