"""C20 - numeric kernels agree with exact linear algebra on every code path."""
from __future__ import annotations

import random

import numpy as np

from symgeo.driver import Case
from symgeo import refgeo as R

EVIDENCE = {
    "functions": ["utils.math.det", "adjugate", "_minor_indices", "inv", "is_multiple", "hat_matrix", "roots", "matmul", "matvec", "outer",
                  "null_space", "orth", "base.TensorDiagram.add_edge/calculate (adjugate's epsilon diagram)"],
    "bounds": "is_multiple also along leading (non-trailing) axes, int and tuple; matrix size n = 2..5; batch 1, 2 and 64 (both sides of the size switch) with 2 fully symbolic matrices in the batch and the rest "
              "seeded integer matrices; real and complex (pairs) entries; polynomials of degree 1..3 with free real coefficients; is_multiple on "
              "vectors of length 2..4 and 2x2 / 3x3 blocks, axis None / int / tuple",
    "outside": "np.linalg.det / np.linalg.inv themselves (contract stubs: exact determinant / inverse), LAPACK svd (contract stub), np.roots for degree > 3, "
               "floating-point rounding, n > 5",
    "assumptions": ["np.linalg.det, inv: exact (stub)", "np.linalg.svd: contract stub (orthonormal bases of range/kernel, arbitrary orthogonal factor)"],
}


def _entries(ctx, name, n, cplx):
    return ctx.complexes(name, n, n) if cplx else ctx.reals(name, n, n)


def _batch(ctx, n, batch, cplx, seed):
    """batch of matrices: up to two symbolic ones, rest seeded small integer matrices"""
    rnd = random.Random(seed * 1000 + n * 10 + batch)
    mats = []
    nsym = min(batch, 2)
    for k in range(nsym):
        mats.append(_entries(ctx, f"m{k}", n, cplx))
    for k in range(batch - nsym):
        while True:
            M = [[rnd.randint(-3, 3) for _ in range(n)] for _ in range(n)]
            if abs(np.linalg.det(np.array(M, dtype=float))) > 0.5:
                break
        mats.append(ctx.const(M, complex if cplx else float))
    if batch == 1:
        return mats[0], [0]
    return np.stack(mats, axis=0), list(range(nsym)) + ([nsym + rnd.randrange(batch - nsym)] if batch > nsym else [])


def mk_det(n, batch, cplx):
    def case(ctx, seed=0):
        from geometer.utils import det
        A, idxs = _batch(ctx, n, batch, cplx, seed)
        d = det(A)
        for k in idxs:
            M = R.mat(A if batch == 1 else A[k])
            dk = d if batch == 1 else d[k]
            ctx.require(f"det[{k}]", ctx.eq(dk, R.det(M)))
    return case


def mk_adj(n, batch, cplx):
    def case(ctx, seed=0):
        from geometer.utils import adjugate
        A, idxs = _batch(ctx, n, batch, cplx, seed)
        adj = adjugate(A)
        ctx.require("shape", adj.shape == A.shape)
        for k in idxs:
            M = R.mat(A if batch == 1 else A[k])
            X = R.mat(adj if batch == 1 else adj[k])
            ref = R.adjugate(M)
            for i in range(n):
                for j in range(n):
                    ctx.require(f"adj[{k}]_{i}{j}", ctx.eq(X[i][j], ref[i][j]))
            if n <= 4:
                d = R.det(M)
                P = R.matmul(M, X)
                for i in range(n):
                    for j in range(n):
                        ctx.require(f"A.adj[{k}]_{i}{j}", ctx.eq(P[i][j], d if i == j else 0))
    return case


def mk_inv(n, batch, cplx):
    def case(ctx, seed=0):
        from geometer.utils import inv
        A, idxs = _batch(ctx, n, batch, cplx, seed)
        dets = [R.det(R.mat(A if batch == 1 else A[k])) for k in (range(batch) if batch > 1 else [0])]
        singular = ctx.any([ctx.is_zero(d) for d in dets])
        try:
            X = inv(A)
        except np.linalg.LinAlgError:
            ctx.outcome("LinAlgError")
            ctx.require("singular-iff-raise", singular)
            return
        ctx.require("no-raise-implies-regular", ctx.neg(singular))
        for k in idxs:
            M = R.mat(A if batch == 1 else A[k])
            Y = R.mat(X if batch == 1 else X[k])
            P = R.matmul(M, Y)
            for i in range(n):
                for j in range(n):
                    ctx.require(f"A.inv[{k}]_{i}{j}", ctx.eq(P[i][j], 1 if i == j else 0))
    return case


def mk_is_multiple(shape, axis, cplx):
    def case(ctx, seed=0):
        from geometer.utils import is_multiple
        a = ctx.complexes("a", *shape) if cplx else ctx.reals("a", *shape)
        b = ctx.complexes("b", *shape) if cplx else ctx.reals("b", *shape)
        r = is_multiple(a, b, axis=axis)
        r2 = is_multiple(b, a, axis=axis)
        # reference: vectors along `axis` are linearly dependent (all 2x2 minors vanish) -- includes a = 0 or b = 0
        A = a.plain if hasattr(a, "plain") else a
        B = b.plain if hasattr(b, "plain") else b
        if axis is None:
            groups = [((), list(A.reshape(-1)), list(B.reshape(-1)))]
        else:
            ax = (axis,) if isinstance(axis, int) else tuple(axis)
            ax = tuple(x % A.ndim for x in ax)
            keep = [i for i in range(A.ndim) if i not in ax]
            At = np.transpose(A, keep + list(ax)).reshape(tuple(A.shape[i] for i in keep) + (-1,))
            Bt = np.transpose(B, keep + list(ax)).reshape(At.shape)
            groups = [(idx, list(At[idx]), list(Bt[idx])) for idx in np.ndindex(*At.shape[:-1])]
        for idx, u, v in groups:
            ref = R.proportional(ctx, u, v)
            got = r if idx == () and not hasattr(r, "shape") or getattr(r, "shape", None) == () else r[idx]
            got2 = r2 if idx == () and not hasattr(r2, "shape") or getattr(r2, "shape", None) == () else r2[idx]
            ctx.require(f"iff{idx}", ctx.iff(ctx.truth(got), ref))
            ctx.require(f"symmetric{idx}", ctx.iff(ctx.truth(got), ctx.truth(got2)))
    return case


def case_hat3(ctx, seed=0):
    from geometer.utils import hat_matrix
    x = ctx.reals("x", 3)
    v = ctx.reals("v", 3)
    a, b, c = R.elems(x)
    ref = [[0, c, -b], [-c, 0, a], [b, -a, 0]]
    for H, tag in ((hat_matrix(x), "vec"), (hat_matrix(x[0], x[1], x[2]), "scalars")):
        M = R.mat(H)
        for i in range(3):
            for j in range(3):
                ctx.require(f"{tag}_{i}{j}", ctx.eq(M[i][j], ref[i][j]))
        w = R.matvec(M, R.elems(v))
        cr = R.cross3(R.elems(v), R.elems(x))
        for i in range(3):
            ctx.require(f"{tag}_cross{i}", ctx.eq(w[i], cr[i]))
    # batch axis
    X = np.stack([x, v])
    HB = hat_matrix(X)
    for k, y in ((0, x), (1, v)):
        a, b, c = R.elems(y)
        ref = [[0, c, -b], [-c, 0, a], [b, -a, 0]]
        M = R.mat(HB[k])
        for i in range(3):
            for j in range(3):
                ctx.require(f"batch{k}_{i}{j}", ctx.eq(M[i][j], ref[i][j]))


def case_hat6(ctx, seed=0):
    from geometer.utils import hat_matrix
    x = ctx.reals("x", 6)
    M = R.mat(hat_matrix(x))
    e = R.elems(x)
    # documented: entries filled along reversed upper-triangular index order, skew-symmetric
    iu = list(zip(*np.triu_indices(4, 1)))[::-1]
    ref = [[0] * 4 for _ in range(4)]
    for (i, j), val in zip(iu, e):
        ref[i][j] = val
        ref[j][i] = -val
    for i in range(4):
        for j in range(4):
            ctx.require(f"h6_{i}{j}", ctx.eq(M[i][j], ref[i][j]))


def mk_roots(deg):
    def case(ctx, seed=0):
        from geometer.utils import roots
        co = ctx.reals("c", deg + 1)
        c = R.elems(co)
        ctx.assume(ctx.neg(ctx.is_zero(c[0])))
        r = roots(co)
        rs = R.elems(r)
        if ctx.symbolic:
            ctx.outcome(f"n={len(rs)}")
        def peval(x):
            t = c[0]
            for k in c[1:]:
                t = t * x + k
            return t
        for i, x in enumerate(rs):
            ctx.require(f"is_root{i}", ctx.eq(peval(x), 0))
        if deg == 1:
            ctx.require("count", len(rs) == 1)
            return
        if deg == 2:
            ctx.require("count", len(rs) == 2)
            ctx.require("vieta_sum", ctx.eq(c[0] * (rs[0] + rs[1]), -c[1]))
            ctx.require("vieta_prod", ctx.eq(c[0] * (rs[0] * rs[1]), c[2]))
            return
        if len(rs) == 1:
            # the library returns a single value only for a triple root
            x = rs[0]
            ctx.require("triple_sum", ctx.eq(c[0] * 3 * x, -c[1]))
            ctx.require("triple_pair", ctx.eq(c[0] * 3 * x * x, c[2]))
            ctx.require("triple_prod", ctx.eq(c[0] * x * x * x, -c[3]))
            return
        ctx.require("count", len(rs) == 3)
        s1 = rs[0] + rs[1] + rs[2]
        s2 = rs[0] * rs[1] + rs[0] * rs[2] + rs[1] * rs[2]
        s3 = rs[0] * rs[1] * rs[2]
        ctx.require("vieta_sum", ctx.eq(c[0] * s1, -c[1]))
        ctx.require("vieta_pair", ctx.eq(c[0] * s2, c[2]))
        ctx.require("vieta_prod", ctx.eq(c[0] * s3, -c[3]))
    return case


def case_matmul(ctx, seed=0):
    from geometer.utils import matmul, matvec, outer
    a = ctx.complexes("a", 2, 3)
    b = ctx.complexes("b", 3, 2)
    v = ctx.complexes("v", 3)
    A, B = R.mat(a), R.mat(b)
    cj = (lambda x: x.conjugate())
    def chk(tag, X, ref):
        X = R.mat(X)
        for i in range(len(ref)):
            for j in range(len(ref[0])):
                ctx.require(f"{tag}_{i}{j}", ctx.eq(X[i][j], ref[i][j]))
    chk("ab", matmul(a, b), R.matmul(A, B))
    chk("aTbT", matmul(a, b, transpose_a=True, transpose_b=True), R.matmul(R.transpose(A), R.transpose(B)))
    chk("aHbH", matmul(a, b, adjoint_a=True, adjoint_b=True), R.matmul([[cj(x) for x in r] for r in R.transpose(A)], [[cj(x) for x in r] for r in R.transpose(B)]))
    chk("a.bT", matmul(a, a, transpose_b=True), R.matmul(A, R.transpose(A)))
    mv = R.elems(matvec(a, v))
    ref = R.matvec(A, R.elems(v))
    for i in range(2):
        ctx.require(f"matvec{i}", ctx.eq(mv[i], ref[i]))
    mv = R.elems(matvec(b, v, transpose_a=True))
    ref = R.matvec(R.transpose(B), R.elems(v))
    for i in range(2):
        ctx.require(f"matvecT{i}", ctx.eq(mv[i], ref[i]))
    mv = R.elems(matvec(b, v, adjoint_a=True))
    ref = R.matvec([[cj(x) for x in r] for r in R.transpose(B)], R.elems(v))
    for i in range(2):
        ctx.require(f"matvecH{i}", ctx.eq(mv[i], ref[i]))
    o = R.mat(outer(v, a[0]))
    ve, ae = R.elems(v), R.elems(a[0])
    for i in range(3):
        for j in range(3):
            ctx.require(f"outer{i}{j}", ctx.eq(o[i][j], ve[i] * ae[j]))


def mk_nullspace(m, n, rank):
    def setup():
        from symgeo import symnp
        symnp.SVD_RANK["rank"] = rank

    def case(ctx, seed=0):
        from geometer.utils import null_space, orth
        # A = L * Rt with L (m x rank), Rt (rank x n): rank <= rank; assume the stub's rank assumption through its own abort
        L = ctx.reals("l", m, rank)
        Rt = ctx.reals("r", rank, n)
        A = np.matmul(L, Rt) if not ctx.symbolic else L @ Rt
        N = null_space(A, n - rank)
        ctx.require("ns_shape", N.shape == (n, n - rank))
        Am, Nm = R.mat(A), R.mat(N)
        P = R.matmul(Am, Nm)
        for i in range(m):
            for j in range(n - rank):
                ctx.require(f"A.N_{i}{j}", ctx.eq(P[i][j], 0))
        G = R.matmul(R.transpose(Nm), Nm)
        for i in range(n - rank):
            for j in range(n - rank):
                ctx.require(f"NtN_{i}{j}", ctx.eq(G[i][j], 1 if i == j else 0))
        if rank <= 2:
            Q = orth(A, rank)
            ctx.require("orth_shape", Q.shape == (m, rank))
            Qm = R.mat(Q)
            G = R.matmul(R.transpose(Qm), Qm)
            for i in range(rank):
                for j in range(rank):
                    ctx.require(f"QtQ_{i}{j}", ctx.eq(G[i][j], 1 if i == j else 0))
            # columns of Q lie in the range of A = span of columns of L: rank of (L | q) stays `rank`
            Lm = R.transpose(R.mat(L))
            for j in range(rank):
                q = [Qm[i][j] for i in range(m)]
                if m > rank:
                    ctx.require(f"Q_in_range_{j}", R.rank_deficient(ctx, Lm + [q]))
    return case, setup


def mk_nullspace_auto(m, n, rank):
    """dim=None: the dimension is derived from the singular values (tolerance idealised: rank = number of non-zero ones)"""
    def setup():
        from symgeo import symnp
        symnp.SVD_RANK["rank"] = rank

    def case(ctx, seed=0):
        from geometer.utils import null_space, orth
        L = ctx.reals("l", m, rank)
        Rt = ctx.reals("r", rank, n)
        A = np.matmul(L, Rt) if not ctx.symbolic else L @ Rt
        if not ctx.symbolic:
            ctx.assume(np.linalg.matrix_rank(A) == rank)
        N = null_space(A)
        ctx.require("ns_auto_shape", tuple(N.shape) == (n, n - rank))
        if n - rank:
            Am, Nm = R.mat(A), R.mat(N)
            P = R.matmul(Am, Nm)
            for i in range(m):
                for j in range(n - rank):
                    ctx.require(f"A.N_{i}{j}", ctx.eq(P[i][j], 0))
        Q = orth(A)
        ctx.require("orth_auto_shape", tuple(Q.shape) == (m, rank))
    return case, setup


def cases(tier, seed):
    cs = []
    def add(name, fn, **kw):
        cs.append(Case(name, (lambda ctx, fn=fn: fn(ctx, seed)), **kw))
    for cplx in (False, True):
        t = "c" if cplx else "r"
        add(f"det2_b1_{t}", mk_det(2, 1, cplx))
        add(f"det2_b64_{t}", mk_det(2, 64, cplx))
        add(f"det3_b64_{t}", mk_det(3, 64, cplx))
        add(f"det3_b63_{t}", mk_det(3, 63, cplx), tiers=("thorough",))
        add(f"adj2_b1_{t}", mk_adj(2, 1, cplx))
        add(f"adj2_b2_{t}", mk_adj(2, 2, cplx))
        add(f"adj3_b1_{t}", mk_adj(3, 1, cplx))
        add(f"adj3_b2_{t}", mk_adj(3, 2, cplx), tiers=("thorough",))
        add(f"adj3_b64_{t}", mk_adj(3, 64, cplx))
        add(f"adj4_b1_{t}", mk_adj(4, 1, cplx), tiers=("quick", "thorough") if not cplx else ("thorough",))
        add(f"adj4_b64_{t}", mk_adj(4, 64, cplx), tiers=("quick", "thorough") if not cplx else ("thorough",))
        add(f"adj5_b1_{t}", mk_adj(5, 1, cplx), tiers=("thorough",))
        add(f"inv2_b64_{t}", mk_inv(2, 64, cplx))
        add(f"inv3_b64_{t}", mk_inv(3, 64, cplx), tiers=("quick", "thorough") if not cplx else ())
        add(f"inv4_b64_{t}", mk_inv(4, 64, cplx), tiers=("thorough",))
        add(f"inv3_b1_{t}", mk_inv(3, 1, cplx), tiers=("thorough",))
    for shape, axis, tg in (((2,), None, "v2_none"), ((3,), None, "v3_none"), ((3,), -1, "v3_m1"), ((4,), 0, "v4_0"),
                            ((2, 3), -1, "c2v3_m1"), ((2, 2), (-2, -1), "m22_tuple"), ((2, 3), (1,), "c2v3_tuple1"),
                            ((2, 3), 0, "v2c3_axis0"), ((2, 3), (0,), "v2c3_tuple0"), ((2, 1, 3), (0, 1), "m21c3_leading_tuple")):
        add(f"is_multiple_{tg}_r", mk_is_multiple(shape, axis, False), max_paths=3000)
    add("is_multiple_v3_none_c", mk_is_multiple((3,), None, True), tiers=("thorough",), max_paths=4000)
    add("is_multiple_m33_tuple_r", mk_is_multiple((3, 3), (-2, -1), False), tiers=("thorough",), max_paths=20000)
    add("hat3", case_hat3)
    add("hat6", case_hat6)
    add("roots1", mk_roots(1))
    add("roots2", mk_roots(2))
    add("roots3", mk_roots(3), max_paths=200)
    add("matmul", case_matmul)
    for (m, n, r) in ((1, 3, 1), (2, 3, 2), (2, 4, 2), (1, 2, 1)):
        fn, setup = mk_nullspace(m, n, r)
        add(f"nullspace_{m}x{n}_r{r}", fn, setup=setup, tiers=("quick", "thorough") if (m, n) in ((1, 3), (1, 2)) else ("thorough",))
    for (m, n, r) in ((2, 2, 2),):
        fn, setup = mk_nullspace_auto(m, n, r)
        add(f"nullspace_auto_{m}x{n}_r{r}", fn, setup=setup)
    return cs
