"""C11 - cross ratio: closed form, symmetries, harmonic sets, NotCollinear / NotConcurrent."""
from __future__ import annotations

import numpy as np

from symgeo.driver import Case
from symgeo import refgeo as R
from harness.common import vec, E
from harness.tr import mk_array

EVIDENCE = {
    "functions": ["operators.crossratio (points 1-D/2-D/3-D, from_point, four lines)", "operators.harmonic_set", "operators.is_coplanar/is_collinear/is_concurrent",
                  "LineTensor.base_point", "SubspaceTensor.general_point", "PointLikeTensor.__add__/__mul__", "LineTensor.direction", "utils.math.det/matvec"],
    "bounds": "line spanned by free real points a, b in dimension 1, 2, 3; four free homogeneous parameters (mu_k : xi_k) each (so a point at infinity or at the origin "
              "among the four is inside the query); pencil vertex o a free real point; single objects",
    "outside": "collections; pencils of lines: free vertex / vertex on the y-axis / at the origin and four parallel lines (lattice direction, free offsets) are inside; cross ratio of four planes and harmonic_set in 3-D go through the SVD contract stub (harmonic_set and the symmetries in 3-D: built, tier attempt, undecided); rounding",
    "assumptions": ["ProjectiveTensor.__eq__ uses the is_multiple lemma (proved in C20) instead of the implementation, to avoid 8 forks per ==",
                    "invariance under a projective transformation = closed form (this check, for arbitrary spanning points) + linearity of point images (C07 point-image=M.x)"],
}


def _setup():
    from symgeo.lemmas import use_is_multiple_lemma
    use_is_multiple_lemma(True)


def _params(ctx, k=4):
    mus = [ctx.real(f"mu{i}") for i in range(k)]
    xis = [ctx.real(f"xi{i}") for i in range(k)]
    return mus, xis


def _br(mus, xis, i, j):
    return mus[i] * xis[j] - mus[j] * xis[i]


def _points(ctx, dim, mus, xis):
    from geometer import Point
    n = dim + 1
    a, b = vec(ctx, "a", n), vec(ctx, "b", n)
    ctx.assume(ctx.neg(R.rank_deficient(ctx, [E(a), E(b)])))
    pts = [Point(mk_array(ctx, [m * u + x * v for u, v in zip(E(a), E(b))])) for m, x in zip(mus, xis)]
    return a, b, pts


def _distinct(ctx, mus, xis, idx=(0, 1, 2, 3)):
    for i in idx:
        for j in idx:
            if i < j:
                ctx.assume(ctx.neg(ctx.is_zero(_br(mus, xis, i, j))))


def _cr_ref(mus, xis, order=(0, 1, 2, 3)):
    a, b, c, d = order
    return _br(mus, xis, a, c) * _br(mus, xis, b, d), _br(mus, xis, a, d) * _br(mus, xis, b, c)


def mk_points(dim, from_point=False, order=(0, 1, 2, 3), tag=""):
    def case(ctx):
        from geometer import crossratio, Point
        mus, xis = _params(ctx)
        _distinct(ctx, mus, xis)
        a, b, pts = _points(ctx, dim, mus, xis)
        args = [pts[i] for i in order]
        if from_point:
            o = vec(ctx, "o", 3)
            ctx.assume(ctx.neg(ctx.is_zero(R.det([E(o), E(a), E(b)]))))
            cr = crossratio(*args, Point(o))
        else:
            cr = crossratio(*args)
        num, den = _cr_ref(mus, xis, order)
        if ctx.symbolic and getattr(cr, "special", None):
            # division-by-zero side of the final quotient: infeasible for distinct points (the denominator is the product of two
            # non-zero brackets times powers of the Gram determinant), but in 3-D the solver cannot decide that; 1-D/2-D: required
            if dim < 3:
                ctx.require(f"quotient-defined{tag}", False)
            else:
                ctx.hunt(f"quotient-defined{tag}", False)
            ctx.outcome("quotient-undefined")
            return
        ctx.require(f"closed-form{tag}", ctx.eq(cr * den, num))
    return case


def mk_symmetries(dim):
    """cr(a,b,c,d) = cr(b,a,d,c) = cr(c,d,a,b) = 1/cr(a,b,d,c) = 1 - cr(a,c,b,d) on the library's own values"""
    def case(ctx):
        from geometer import crossratio
        mus, xis = _params(ctx)
        _distinct(ctx, mus, xis)
        a, b, pts = _points(ctx, dim, mus, xis)
        c0 = crossratio(pts[0], pts[1], pts[2], pts[3])
        ctx.require("sym:badc", ctx.eq(crossratio(pts[1], pts[0], pts[3], pts[2]), c0))
        ctx.require("sym:cdab", ctx.eq(crossratio(pts[2], pts[3], pts[0], pts[1]), c0))
        ctx.require("sym:abdc-inverse", ctx.eq(crossratio(pts[0], pts[1], pts[3], pts[2]) * c0, 1))
        ctx.require("sym:acbd-complement", ctx.eq(crossratio(pts[0], pts[2], pts[1], pts[3]) + c0, 1))
    return case


def case_not_collinear(ctx):
    """4 points of the plane: NotCollinear exactly when they are not collinear"""
    from geometer import crossratio, Point
    from geometer.exceptions import NotCollinear
    P = [vec(ctx, k, 3) for k in "abcd"]
    for p in P:
        ctx.assume(R.nonzero(ctx, E(p)))
    ctx.assume(ctx.neg(R.rank_deficient(ctx, [E(P[0]), E(P[1])])))
    # a, b independent: the four points are collinear iff c and d lie on the line <a,b>
    collinear = ctx.all([ctx.is_zero(R.det([E(P[0]), E(P[1]), E(P[k])])) for k in (2, 3)])
    try:
        crossratio(*[Point(p) for p in P])
    except NotCollinear:
        ctx.outcome("NotCollinear")
        ctx.require("NotCollinear-implies-not-collinear", ctx.neg(collinear))
        return
    ctx.outcome("value")
    ctx.require("value-implies-collinear", collinear)


def case_not_concurrent(ctx):
    from geometer import crossratio, Line
    from geometer.exceptions import NotConcurrent
    L = [vec(ctx, k, 3) for k in "ghkl"]
    for l in L:
        ctx.assume(R.nonzero(ctx, E(l)))
    ctx.assume(ctx.neg(R.rank_deficient(ctx, [E(L[0]), E(L[1])])))
    conc = ctx.all([ctx.is_zero(R.det([E(L[0]), E(L[1]), E(L[k])])) for k in (2, 3)])
    try:
        crossratio(*[Line(l) for l in L])
    except NotConcurrent:
        ctx.outcome("NotConcurrent")
        ctx.require("NotConcurrent-implies-not-concurrent", ctx.neg(conc))
        return
    ctx.outcome("value")
    ctx.require("value-implies-concurrent", conc)


def mk_lines(vertex="free"):
    """four concurrent lines join(o, P_k): value = parameter formula, and the quotient is defined"""
    def case(ctx):
        from geometer import crossratio, Point, join
        mus, xis = _params(ctx)
        _distinct(ctx, mus, xis)
        a, b, pts = _points(ctx, 2, mus, xis)
        if vertex == "free":
            o = vec(ctx, "o", 3)
        elif vertex == "yaxis":
            o = mk_array(ctx, [0, ctx.real("oy"), 1])
        else:
            o = mk_array(ctx, [0, 0, 1])
        ctx.assume(ctx.neg(ctx.is_zero(R.det([E(o), E(a), E(b)]))))
        O = Point(o)
        strict = vertex != "free"   # free vertex: the infeasibility of the degenerate paths is beyond the solver; special vertices: required
        from geometer.exceptions import LinearDependenceError, NotConcurrent
        try:
            lines = [join(O, p) for p in pts]
            cr = crossratio(*lines)
        except (LinearDependenceError, NotConcurrent):
            if strict:
                raise
            ctx.outcome("degenerate")
            ctx.hunt("lines:no-exception-for-distinct-concurrent-lines", False)
            return
        num, den = _cr_ref(mus, xis)
        if not strict and ctx.symbolic and getattr(cr, "special", None):
            ctx.outcome("quotient-undefined")
            ctx.hunt("lines:quotient-defined", False)
            return
        if ctx.symbolic:
            from symgeo.alg import Alg
            sp = getattr(cr, "special", None)
            ctx.require("lines:quotient-defined", sp is None)
            if sp is not None:
                return
        else:
            ctx.require("lines:quotient-defined", bool(np.isfinite(cr)))
            if not np.isfinite(cr):
                return
        ctx.require("lines:closed-form", ctx.eq(cr * den, num))
    return case


def mk_parallel_lines(k):
    """four parallel lines (pencil with its vertex at infinity): lattice direction, free real offsets; the cross ratio is that of the offsets"""
    DIRS = [(2, -3), (0, 1), (1, 0), (1, 1)]

    def case(ctx):
        from geometer import crossratio, Line
        n0, n1 = DIRS[k]
        t = [ctx.real(f"t{i}") for i in range(4)]
        for i in range(4):
            for j in range(i):
                ctx.assume(ctx.neg(ctx.eq(t[i], t[j])))
        lines = [Line(mk_array(ctx, [n0, n1, ti])) for ti in t]
        cr = crossratio(*lines)
        if ctx.symbolic:
            sp = getattr(cr, "special", None)
            ctx.require("parallel-lines:quotient-defined", sp is None)
            if sp is not None:
                return
        else:
            ctx.require("parallel-lines:quotient-defined", bool(np.isfinite(cr)))
            if not np.isfinite(cr):
                return
        num = (t[0] - t[2]) * (t[1] - t[3])
        den = (t[0] - t[3]) * (t[1] - t[2])
        ctx.require("parallel-lines:closed-form", ctx.eq(cr * den, num))
    return case


def mk_harmonic(dim):
    def case(ctx):
        from geometer import harmonic_set
        mus, xis = _params(ctx, 3)
        _distinct(ctx, mus, xis, (0, 1, 2))
        a, b, pts = _points(ctx, dim, mus, xis)
        from geometer.exceptions import LinearDependenceError
        try:
            d = harmonic_set(pts[0], pts[1], pts[2])
        except LinearDependenceError:
            ctx.outcome("LDE")
            ctx.hunt("harmonic:returns-a-point-for-distinct-collinear-points", False)
            return
        de = E(d)
        ctx.require("harmonic:nonzero", R.nonzero(ctx, de))
        # d on the line <a,b>: rank(a, b, d) = 2
        ctx.require("harmonic:on-line", R.rank_deficient(ctx, [E(a), E(b), de]))
        # parameters (md : xd) of d from two coordinates:  d ~ md a + xd b; use the 2x2 minors against a and b
        # cr(a,b,c,d) = -1  <=>  [02][13] = -[03][12] with d's parameters obtained by Cramer on any independent coordinate pair:
        ae, be = E(a), E(b)
        n = len(ae)
        conds = []
        for i in range(n):
            for j in range(i + 1, n):
                w = ae[i] * be[j] - ae[j] * be[i]
                md = de[i] * be[j] - de[j] * be[i]     # * w^-1
                xd = ae[i] * de[j] - ae[j] * de[i]
                m4, x4 = mus + [md], xis + [xd]
                lhs = _br(m4, x4, 0, 2) * _br(m4, x4, 1, 3) + _br(m4, x4, 0, 3) * _br(m4, x4, 1, 2)
                conds.append(ctx.implies(ctx.neg(ctx.is_zero(w)), ctx.is_zero(lhs)))
        ctx.require("harmonic:cr=-1", ctx.all(conds))
    return case


def cases(tier, seed):
    Q, T = ("quick", "thorough"), ("thorough",)
    cs = []

    def add(name, fn, **kw):
        cs.append(Case(name, fn, setup=_setup, **kw))
    add("points_1d", mk_points(1), tiers=Q)
    add("points_2d", mk_points(2), tiers=Q)
    add("points_3d", mk_points(3), tiers=Q)
    add("points_2d_from_point", mk_points(2, from_point=True), tiers=Q)
    add("points_2d_perm", mk_points(2, order=(2, 0, 3, 1), tag="(c,a,d,b)"), tiers=Q)
    add("symmetries_1d", mk_symmetries(1), tiers=Q)
    add("symmetries_2d", mk_symmetries(2), tiers=Q)
    add("symmetries_3d", mk_symmetries(3), tiers=T)
    add("not_collinear", case_not_collinear, tiers=Q)
    add("not_concurrent", case_not_concurrent, tiers=Q)
    add("lines_free_vertex", mk_lines("free"), tiers=Q, max_paths=3000)
    add("lines_vertex_on_y_axis", mk_lines("yaxis"), tiers=Q, max_paths=3000)
    add("lines_vertex_origin", mk_lines("origin"), tiers=Q, max_paths=3000)
    for k in range(4):
        add(f"lines_parallel{k}", mk_parallel_lines(k), tiers=Q, max_paths=3000)
    add("harmonic_2d", mk_harmonic(2), tiers=Q, max_paths=2000)
    add("harmonic_3d", mk_harmonic(3), tiers=T, max_paths=2000)
    return cs
