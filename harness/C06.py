"""C06 - see harness/tr.py (shared transformation harnesses; this property keeps the obligations tagged C06:)"""
from symgeo.driver import Case
from harness import tr
from harness.common import filtered

EVIDENCE = {
    "functions": ["base.Tensor.__apply__", "TransformationTensor.__apply__/apply/__mul__/__pow__/inverse", "base.Tensor.__pow__", "transformation.identity",
                  "shapes.SegmentTensor.__apply__", "shapes.PolygonTensor.__apply__", "utils.math.inv (np.linalg.inv branch: exact stub)",
                  "point.join/meet", "SubspaceTensor.contains", "QuadricTensor.contains/is_tangent/dual", "operators.crossratio"],
    "bounds": "dimension 2 (general 3x3 matrices) and 3 (general 4x4 for points/hyperplanes/lines, affine 4x4 for the heavier kinds; general 4x4 for those kinds: built, tier attempt, undecided, not claimed); "
              "object kinds: point, hyperplane, 3-D line (both tensor forms), quadric, dual quadric, segment, triangle, 4-gon (3-D: 4th vertex parametrised in the plane), "
              "collections of length 2; exponents |k| <= 3; all entries free reals with det != 0 assumed",
    "outside": "collections longer than 2, polygons with more than 4 vertices, polyhedra, |k| > 3, rounding; 'every sequence' follows from the one-step laws by induction",
    "assumptions": ["np.linalg.inv: exact inverse, LinAlgError iff singular (stub)"],
}


def cases(tier, seed):
    return [Case(n, filtered(f, "C06:"), **kw) for n, f, kw in tr.all_cases("C06")]
