"""shared helpers for harnesses (work in symbolic and concrete mode)"""
from __future__ import annotations

import itertools

import numpy as np

from symgeo import refgeo as R


class Filt:
    """forwards to a ctx but keeps only obligations whose name starts with one of the prefixes"""

    def __init__(self, ctx, *prefixes):
        self._ctx = ctx
        self._pre = prefixes

    def __getattr__(self, k):
        return getattr(self._ctx, k)

    def require(self, name, cond, note=None):
        if name.startswith(self._pre):
            self._ctx.require(name, cond, note)
        else:
            r = getattr(self._ctx, "runner", None)
            if r is not None:
                r.res.ob_other_property += 1

    def lemma(self, name, cond):
        self._ctx.lemma(name, cond)

    def hunt(self, name, cond, note=None):
        if name.startswith(self._pre):
            self._ctx.hunt(name, cond, note)

    def wants(self, prefix):
        return prefix in self._pre


def filtered(fn, *prefixes):
    def f(ctx):
        return fn(Filt(ctx, *prefixes))
    return f


def vec(ctx, name, n, cplx=False):
    return ctx.complexes(name, n) if cplx else ctx.reals(name, n)


def E(a):
    return R.elems(a)


def eps4_pq(p, q):
    """M^{kl} = eps^{ijkl} p_i q_j : geometer's contravariant tensor of the line through p, q (x on line <=> M x = 0)"""
    n = len(p)
    M = [[0] * n for _ in range(n)]
    for i, j, k, l in itertools.permutations(range(n), 4):
        s = R.perm_sign((i, j, k, l))
        M[k][l] = M[k][l] + s * p[i] * q[j]
    return M


def wedge(e, f):
    n = len(e)
    return [[e[k] * f[l] - e[l] * f[k] for l in range(n)] for k in range(n)]


def plane3(p, q, r):
    """h^l = eps^{ijkl} p_i q_j r_k"""
    n = 4
    h = [0] * n
    for i, j, k, l in itertools.permutations(range(n), 4):
        s = R.perm_sign((i, j, k, l))
        h[l] = h[l] + s * p[i] * q[j] * r[k]
    return h


def flat(M):
    return [x for r in M for x in r]


def line3_from_points(ctx, p, q):
    """geometer Line object of 3-space built from the harness' own epsilon loop (contravariant representation)"""
    from geometer import Line
    M = eps4_pq(E(p), E(q))
    if ctx.symbolic:
        from symgeo.symarr import to_sym
        arr = to_sym(M)
    else:
        arr = np.array(M)
    return Line(arr)


def dehom(v):
    """Cartesian coordinates of a homogeneous vector (list)"""
    return [x / v[-1] for x in v[:-1]]


def ratio_const(x, y, seed=1):
    """rational constant k with x == k*y for polynomial Alg x, y (evaluated at a pseudo-random rational point); None if y vanishes there"""
    import random
    from fractions import Fraction
    from symgeo.alg import Alg
    x, y = Alg.of(x), Alg.of(y)
    rnd = random.Random(seed)
    env = {}
    for v in x.n.vars() | y.n.vars():
        env[v] = Fraction(rnd.randint(2, 40), rnd.randint(1, 7))
    yv = y.n.evalf(env)
    if yv == 0:
        return None
    return Fraction(x.n.evalf(env)) / Fraction(yv)
