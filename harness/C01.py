"""C01 - see harness/jm.py (shared join/meet harnesses; this property keeps the obligations tagged C01:)"""
from symgeo.driver import Case
from harness import jm
from harness.common import filtered

EVIDENCE = {
    "functions": ["point.join", "point.meet", "point._join_meet_duality (all dispatcher branches)", "point._divide_by_power_of_two",
                  "base.TensorDiagram.add_edge/calculate", "base.LeviCivitaTensor", "base.Tensor.is_zero", "LineTensor.covariant_tensor/contravariant_tensor",
                  "LineTensor.is_coplanar", "TensorCollection.from_tensor", "exceptions.LinearDependenceError.dependent_values"],
    "bounds": "dimension 2 and 3; every arity/kind of join and meet; all coordinates free reals (complex pairs for the 1-tensor operations); "
              "collections of length 2 (one axis), single x collection, 2x2 broadcast of two collection axes, 2x2x2 collections (three collection axes: two symbolic + six lattice elements) x single / x one-axis collection; lines of 3-space parametrised by two "
              "spanning points (surjective), contravariant representation (covariant line tensors are outside the supported kinds: built, tier attempt, not claimed; join/meet of a length-2 collection of 3-D lines with lines: undecided, not claimed)",
    "outside": "collections longer than 2 or with more than 3 axes; complex coordinates in the coplanar-lines (Blinn) branch; floating-point rounding and inputs "
               "within 1e-8 of a degenerate configuration (tolerance idealised to 0)",
    "assumptions": ["np.frexp/ldexp: x = m*2^e with 2^e a positive unit variable (contract stub)", "argmax ordering constraints kept in a separate tier (DESIGN 2.6)"],
}


def cases(tier, seed):
    return [Case(n, filtered(f, "C01:"), **kw) for n, f, kw in jm.all_cases(tier)]
