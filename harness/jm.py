"""join / meet harnesses shared by C01 (values) and C02 (degenerate inputs raise)."""
from __future__ import annotations

import itertools

import numpy as np

from symgeo import refgeo as R
from harness.common import vec, E, eps4_pq, wedge, plane3, flat, line3_from_points


def _dep(ctx, rows):
    return R.rank_deficient(ctx, rows)


def _call(ctx, f, *args):
    """returns (tag, result, exc)"""
    from geometer.exceptions import LinearDependenceError, NotCoplanar
    try:
        return "ok", f(*args), None
    except LinearDependenceError as e:
        return "LDE", None, e
    except NotCoplanar as e:
        return "NotCoplanar", None, e


def _check_1tensor_op(ctx, op, args, ref, dep_rows, tag, incid=None, perms=True):
    """generic: op(*args) must be projectively `ref`; raises LDE iff rows dependent; order independent"""
    t, res, exc = _call(ctx, op, *args)
    dependent = _dep(ctx, dep_rows)
    ctx.outcome(f"{tag}:{t}")
    if t == "LDE":
        ctx.require(f"C02:{tag}:LDE-implies-dependent", dependent)
        return None
    ctx.require(f"C02:{tag}:no-raise-implies-independent", ctx.neg(dependent))
    ctx.require(f"C02:{tag}:only-LDE", t == "ok")
    if t != "ok":
        return None
    r = E(res)
    ctx.require(f"C01:{tag}:equals-reference", R.proj_equal(ctx, r, ref))
    if incid:
        for k, z in enumerate(incid(res)):
            ctx.require(f"C01:{tag}:incident{k}", ctx.is_zero(z))
    if perms and len(args) <= 3:
        for pi in list(itertools.permutations(range(len(args))))[1:]:
            t2, res2, _ = _call(ctx, op, *[args[i] for i in pi])
            ctx.require(f"C01:{tag}:perm{pi}-same-outcome", t2 == "ok")
            if t2 == "ok":
                ctx.require(f"C01:{tag}:perm{pi}-equal", R.proj_equal(ctx, E(res2), r))
    return res


# ------------------------------------------------------------------ 2-D

def mk_join2d(cplx=False, dual=False):
    def case(ctx):
        from geometer import Point, Line, join, meet
        cls = Line if dual else Point
        op = meet if dual else join
        p, q = cls(vec(ctx, "p", 3, cplx)), cls(vec(ctx, "q", 3, cplx))
        pe, qe = E(p), E(q)
        ref = R.cross3(pe, qe)
        res = _check_1tensor_op(ctx, op, [p, q], ref, [pe, qe], "meet2d" if dual else "join2d",
                                incid=lambda r: [R.dot(E(r), pe), R.dot(E(r), qe)])
        if res is not None:
            ctx.require("C01:type", type(res).__name__ == ("Point" if dual else "Line"))
    return case


def case_roundtrip2d(ctx):
    from geometer import Point, join, meet
    p, q, r = (Point(vec(ctx, n, 3)) for n in "pqr")
    rows = [E(p), E(q), E(r)]
    t1, l, _ = _call(ctx, join, p, q)
    if t1 != "ok":
        return
    t2, m, _ = _call(ctx, join, p, r)
    if t2 != "ok":
        return
    t3, x, _ = _call(ctx, meet, l, m)
    collinear = ctx.is_zero(R.det(rows))
    if t3 == "LDE":
        ctx.require("C02:roundtrip:LDE-implies-collinear", collinear)
        return
    ctx.require("C02:roundtrip:no-raise-implies-general", ctx.neg(collinear))
    ctx.require("C01:roundtrip:meet(join(p,q),join(p,r))=p", R.proj_equal(ctx, E(x), E(p)))


def case_roundtrip2d_dual(ctx):
    from geometer import Line, join, meet
    l, m, n = (Line(vec(ctx, k, 3)) for k in "lmn")
    t1, a, _ = _call(ctx, meet, l, m)
    if t1 != "ok":
        return
    t2, b, _ = _call(ctx, meet, l, n)
    if t2 != "ok":
        return
    t3, x, _ = _call(ctx, join, a, b)
    conc = ctx.is_zero(R.det([E(l), E(m), E(n)]))
    if t3 == "LDE":
        ctx.require("C02:roundtrip-dual:LDE-implies-concurrent", conc)
        return
    ctx.require("C02:roundtrip-dual:no-raise-implies-general", ctx.neg(conc))
    ctx.require("C01:roundtrip-dual:join(meet(l,m),meet(l,n))=l", R.proj_equal(ctx, E(x), E(l)))


# ------------------------------------------------------------------ 3-D

def _Mx(M, x):
    return R.matvec(M, x)


def mk_join3d_pq(cplx=False):
    def case(ctx):
        from geometer import Point, join
        p, q = Point(vec(ctx, "p", 4, cplx)), Point(vec(ctx, "q", 4, cplx))
        pe, qe = E(p), E(q)
        ref = flat(eps4_pq(pe, qe))
        res = _check_1tensor_op(ctx, join, [p, q], ref, [pe, qe], "join3d_pq",
                                incid=lambda r: _Mx(R.mat(r), pe) + _Mx(R.mat(r), qe))
        if res is not None:
            ctx.require("C01:type", type(res).__name__ == "Line" and res.tensor_shape == (0, 2))
    return case


def mk_join3d_pqr(cplx=False, dual=False):
    def case(ctx):
        from geometer import Point, Plane, join, meet
        cls = Plane if dual else Point
        op = meet if dual else join
        p, q, r = (cls(vec(ctx, n, 4, cplx)) for n in "pqr")
        pe, qe, re_ = E(p), E(q), E(r)
        ref = plane3(pe, qe, re_)
        res = _check_1tensor_op(ctx, op, [p, q, r], ref, [pe, qe, re_], "meet3d_efg" if dual else "join3d_pqr",
                                incid=lambda x: [R.dot(E(x), pe), R.dot(E(x), qe), R.dot(E(x), re_)], perms=not cplx)
        if res is not None:
            ctx.require("C01:type", type(res).__name__ == ("Point" if dual else "Plane"))
    return case


def mk_meet3d_ef(cplx=False):
    def case(ctx):
        from geometer import Plane, meet
        e, f = Plane(vec(ctx, "e", 4, cplx)), Plane(vec(ctx, "f", 4, cplx))
        ee, fe = E(e), E(f)
        ref = flat(wedge(ee, fe))
        res = _check_1tensor_op(ctx, meet, [e, f], ref, [ee, fe], "meet3d_ef")
        if res is not None:
            ctx.require("C01:type", type(res).__name__ == "Line" and res.tensor_shape == (0, 2))
            # every point of the result lies in both planes: M = e^f  => e.M = 0, f.M = 0 columnwise
            M = R.mat(res)
            for k in range(4):
                col = [M[i][k] for i in range(4)]
    return case


def mk_join_point_line(order, covariant=False, cplx=False):
    def case(ctx):
        from geometer import Point, join
        a, b, p = (vec(ctx, n, 4, cplx) for n in "abp")
        ae, be, pe = E(a), E(b), E(p)
        ctx.assume(ctx.neg(_dep(ctx, [ae, be])))
        l = line3_from_points(ctx, a, b)
        if covariant:
            l = l.covariant_tensor
        P = Point(p)
        args = [P, l] if order == "pl" else [l, P]
        ref = plane3(ae, be, pe)
        res = _check_1tensor_op(ctx, join, args, ref, [ae, be, pe], f"join3d_{order}" + ("_cov" if covariant else ""),
                                incid=lambda x: [R.dot(E(x), ae), R.dot(E(x), be), R.dot(E(x), pe)], perms=False)
        if res is not None:
            ctx.require("C01:type", type(res).__name__ == "Plane")
    return case


def mk_meet_plane_line(order, covariant=False, cplx=False):
    def case(ctx):
        from geometer import Plane, meet
        a, b, e = (vec(ctx, n, 4, cplx) for n in "abe")
        ae, be, ee = E(a), E(b), E(e)
        ctx.assume(ctx.neg(_dep(ctx, [ae, be])))
        l = line3_from_points(ctx, a, b)
        if covariant:
            l = l.covariant_tensor
        pl = Plane(e)
        args = [pl, l] if order == "el" else [l, pl]
        ea, eb = R.dot(ee, ae), R.dot(ee, be)
        ref = [eb * x - ea * y for x, y in zip(ae, be)]
        t, res, exc = _call(ctx, meet, *args)
        tag = f"meet3d_{order}" + ("_cov" if covariant else "")
        contained = ctx.all([ctx.is_zero(ea), ctx.is_zero(eb)])
        degenerate = ctx.any([contained, ctx.all([ctx.is_zero(x) for x in ee])])
        ctx.outcome(f"{tag}:{t}")
        if t == "LDE":
            if not cplx:   # complex: the converse direction is an NRA query over 24 reals that z3 does not decide; real case only
                ctx.require(f"C02:{tag}:LDE-implies-line-in-plane", degenerate)
            return
        ctx.require(f"C02:{tag}:only-LDE", t == "ok")
        if t != "ok":
            return
        ctx.require(f"C01:{tag}:equals-reference", R.proj_equal(ctx, E(res), ref))
        ctx.require(f"C01:{tag}:in-plane", ctx.is_zero(R.dot(E(res), ee)))
        ctx.require("C01:type", type(res).__name__ == "Point")
    return case


def mk_plane_contains_line(order):
    """degenerate set parametrised: e = plane(a, b, r) contains the line <a,b> by construction => meet must raise LDE"""
    def case(ctx):
        from geometer import Plane, meet
        a, b, r = (vec(ctx, n, 4) for n in "abr")
        ae, be, re_ = E(a), E(b), E(r)
        ctx.assume(ctx.neg(_dep(ctx, [ae, be])))
        l = line3_from_points(ctx, a, b)
        h = plane3(ae, be, re_)
        if ctx.symbolic:
            from symgeo.symarr import to_sym
            pl = Plane(to_sym(h))
        else:
            pl = Plane(np.array(h))
        args = [pl, l] if order == "el" else [l, pl]
        t, res, exc = _call(ctx, meet, *args)
        ctx.outcome(f"contained_{order}:{t}")
        ctx.require(f"C02:meet3d_{order}:line-in-plane-raises-LDE", t == "LDE")
    return case


def mk_lines_common_point(op_name, covariant=False, swap=False, shared="first"):
    """l = <a,b>, m = <a,c> (or <c,a>): coplanar by construction; meet = a, join = plane(a,b,c)"""
    def case(ctx):
        from geometer import join, meet
        a, b, c = (vec(ctx, n, 4) for n in "abc")
        ae, be, ce = E(a), E(b), E(c)
        ctx.assume(ctx.neg(_dep(ctx, [ae, be])))
        ctx.assume(ctx.neg(_dep(ctx, [ae, ce])))
        l = line3_from_points(ctx, a, b)
        m = line3_from_points(ctx, a, c) if shared == "first" else line3_from_points(ctx, c, a)
        if swap:
            l, m = m, l
        if covariant:
            l, m = l.covariant_tensor, m.covariant_tensor
        op = meet if op_name == "meet" else join
        tag = f"{op_name}3d_ll" + ("_cov" if covariant else "") + ("_swap" if swap else "")
        t, res, exc = _call(ctx, op, l, m)
        same = _dep(ctx, [ae, be, ce])
        ctx.outcome(f"{tag}:{t}")
        if t == "LDE":
            if ctx.symbolic and not covariant:
                _blinn_hint(ctx, l, m, ae, plane3(ae, be, ce))
            ctx.require(f"C02:{tag}:LDE-implies-same-line", same)
            return
        ctx.require(f"C02:{tag}:coplanar-lines-never-NotCoplanar", t != "NotCoplanar")
        ctx.require(f"C02:{tag}:no-raise-implies-distinct", ctx.neg(same))
        if t != "ok":
            return
        if op_name == "meet":
            ctx.require(f"C01:{tag}:is-common-point", R.proj_equal(ctx, E(res), ae))
            ctx.require("C01:type", type(res).__name__ == "Point")
        else:
            ctx.require(f"C01:{tag}:is-common-plane", R.proj_equal(ctx, E(res), plane3(ae, be, ce)))
            ctx.require("C01:type", type(res).__name__ == "Plane")
    return case


def _blinn_hint(ctx, l, m, ae, h, suffix=""):
    if not ctx.wants("C02:"):
        return
    """auxiliary lemmas for the solver: the rank-one structure T_l^m = k * a_l * h_m of Blinn's tensor for the coplanar
    lines <a,b>, <a,c> (h = plane through a, b, c), with h kept as opaque named sub-terms."""
    from harness.common import ratio_const
    L, M = R.mat(l.array), R.mat(m.array)
    T = [[0] * 4 for _ in range(4)]
    for i, j, k, q in itertools.permutations(range(4), 4):
        s_ = R.perm_sign((i, j, k, q))
        for mm in range(4):
            T[q][mm] = T[q][mm] + s_ * L[i][j] * M[k][mm]
    kappa = None
    for q in range(4):
        for mm in range(4):
            kappa = ratio_const(T[q][mm], ae[q] * h[mm])
            if kappa:
                break
        if kappa:
            break
    if not kappa:
        return
    H = [ctx.define(f"h{suffix}_{mm}", h[mm]) for mm in range(4)]
    for q in range(4):
        for mm in range(4):
            ctx.lemma_by_unfolding(f"blinn-rank1{suffix}[{q}{mm}]", T[q][mm], kappa * ae[q] * H[mm])


def mk_skew(op_name):
    """general pair of lines <a,b>, <c,d>: NotCoplanar iff det(a,b,c,d) != 0; is_coplanar agrees"""
    def case(ctx):
        from geometer import join, meet
        a, b, c, d = (vec(ctx, n, 4) for n in "abcd")
        ae, be, ce, de = E(a), E(b), E(c), E(d)
        ctx.assume(ctx.neg(_dep(ctx, [ae, be])))
        ctx.assume(ctx.neg(_dep(ctx, [ce, de])))
        l = line3_from_points(ctx, a, b)
        m = line3_from_points(ctx, c, d)
        D = R.det([ae, be, ce, de])
        cop = l.is_coplanar(m)
        ctx.require("C02:is_coplanar-iff-det0", ctx.iff(ctx.truth(cop), ctx.is_zero(D)))
        op = meet if op_name == "meet" else join
        t, res, exc = _call(ctx, op, l, m)
        ctx.outcome(f"{op_name}:{t}")
        if t == "NotCoplanar":
            ctx.require(f"C02:{op_name}-skew:NotCoplanar-implies-skew", ctx.neg(ctx.is_zero(D)))
            return
        ctx.require(f"C02:{op_name}-skew:no-NotCoplanar-implies-coplanar", ctx.is_zero(D))
    return case


def case_roundtrip3d(ctx):
    from geometer import Point, join, meet
    p, q, r = (Point(vec(ctx, n, 4)) for n in "pqr")
    rows = [E(p), E(q), E(r)]
    t1, l, _ = _call(ctx, join, p, q)
    if t1 != "ok":
        return
    t2, m, _ = _call(ctx, join, p, r)
    if t2 != "ok":
        return
    t3, x, _ = _call(ctx, meet, l, m)
    coll = _dep(ctx, rows)
    if t3 != "ok":
        ctx.require("C02:roundtrip3d:raise-is-LDE", t3 == "LDE")
        return
    ctx.require("C02:roundtrip3d:no-raise-implies-general", ctx.neg(coll))
    ctx.require("C01:roundtrip3d:meet(join(p,q),join(p,r))=p", R.proj_equal(ctx, E(x), E(p)))


# ------------------------------------------------------------------ collections

def mk_coll(kind, dim, shape="c2"):
    """join/meet of collections equals the positionwise reference; dependent_values mask marks exactly the dependent positions"""
    def case(ctx):
        from geometer import PointCollection, LineCollection, PlaneCollection, Point, Line, Plane, join, meet
        from geometer.exceptions import LinearDependenceError
        n = dim + 1
        if kind == "join":
            C, S_, op = PointCollection, Point, join
        else:
            C, S_, op = (LineCollection, Line, meet) if dim == 2 else (PlaneCollection, Plane, meet)
        nargs = 2
        A = ctx.reals("A", 2, n)
        if shape == "c2":
            B = ctx.reals("B", 2, n)
            a, b = C(A), C(B)
            pairs = [(E(A[0]), E(B[0])), (E(A[1]), E(B[1]))]
        elif shape == "s_c2":
            Bv = ctx.reals("B", n)
            a, b = C(A), S_(Bv)
            pairs = [(E(A[0]), E(Bv)), (E(A[1]), E(Bv))]
        else:  # c2x1: two collection axes broadcast
            B = ctx.reals("B", 2, n)
            a, b = C(A).expand_dims(1), C(B).expand_dims(0)
            pairs = None
        tag = f"{kind}{dim}d_{shape}"
        if pairs is None:
            grid = [[(E(A[i]), E(B[j])) for j in range(2)] for i in range(2)]
        try:
            res = op(a, b)
        except LinearDependenceError as e:
            mask = e.dependent_values
            ctx.outcome(tag + ":LDE")
            if pairs is not None:
                for i, (u, v) in enumerate(pairs):
                    ctx.require(f"C02:{tag}:mask[{i}]", ctx.iff(ctx.truth(mask[i]), _dep(ctx, [u, v])))
                ctx.require(f"C02:{tag}:some-dependent", ctx.any([_dep(ctx, [u, v]) for u, v in pairs]))
            else:
                for i in range(2):
                    for j in range(2):
                        u, v = grid[i][j]
                        ctx.require(f"C02:{tag}:mask[{i},{j}]", ctx.iff(ctx.truth(mask[i, j]), _dep(ctx, [u, v])))
            return
        ctx.outcome(tag + ":ok")

        def ref(u, v):
            if dim == 2:
                return R.cross3(u, v)
            return flat(eps4_pq(u, v)) if kind == "join" else flat(wedge(u, v))
        if pairs is not None:
            ctx.require(f"C01:{tag}:shape", res.shape[0] == 2 and res.free_indices == 1)
            for i, (u, v) in enumerate(pairs):
                ctx.require(f"C02:{tag}:no-raise-implies-independent[{i}]", ctx.neg(_dep(ctx, [u, v])))
                ctx.require(f"C01:{tag}:pos[{i}]", R.proj_equal(ctx, E(res.array[i]), ref(u, v)))
        else:
            ctx.require(f"C01:{tag}:shape", res.shape[:2] == (2, 2) and res.free_indices == 2)
            for i in range(2):
                for j in range(2):
                    u, v = grid[i][j]
                    ctx.require(f"C02:{tag}:no-raise-implies-independent[{i},{j}]", ctx.neg(_dep(ctx, [u, v])))
                    ctx.require(f"C01:{tag}:pos[{i},{j}]", R.proj_equal(ctx, E(res.array[i, j]), ref(u, v)))
    return case


def mk_three_axes(kind, dim, other="single"):
    """a collection with THREE collection axes (2x2x2; two symbolic elements, six lattice elements, all different) joined / met with a single
    symbolic object or with a one-axis collection broadcast along the last axis: every position equals the positionwise reference"""
    LAT = [[1, 0, 2, 1], [0, 1, 1, 2], [2, 1, 0, -1], [1, 1, 1, 1], [3, -1, 2, 1], [-1, 2, 0, 3], [0, 3, -2, 1], [2, -2, 1, 0]]

    def case(ctx):
        from geometer import PointCollection, LineCollection, PlaneCollection, Point, Line, Plane, join, meet
        from geometer.exceptions import LinearDependenceError
        n = dim + 1
        if kind == "join":
            C, S_, op = PointCollection, Point, join
        else:
            C, S_, op = (LineCollection, Line, meet) if dim == 2 else (PlaneCollection, Plane, meet)
        elems = {}
        k = 0
        for idx in itertools.product(range(2), repeat=3):
            if idx == (0, 1, 0):
                elems[idx] = vec(ctx, "p", n)
            elif idx == (1, 0, 1):
                elems[idx] = vec(ctx, "r", n)
            else:
                elems[idx] = ctx.const(LAT[k][:n] if dim == 3 else [LAT[k][0], LAT[k][1], LAT[k][3]], float)
            k += 1
        arr = np.stack([np.stack([np.stack([elems[(i, j, l)] for l in range(2)]) for j in range(2)]) for i in range(2)])
        X = C(arr)
        if other == "single":
            q = vec(ctx, "q", n)
            Y = S_(q)
            second = {idx: q for idx in elems}
        else:
            qs = [vec(ctx, "q", n), ctx.const([1, -3, 2, 2][:n] if dim == 3 else [1, -3, 2], float)]
            Y = C(np.stack(qs))
            second = {idx: qs[idx[2]] for idx in elems}
        for idx in elems:
            ctx.assume(ctx.neg(_dep(ctx, [E(elems[idx]), E(second[idx])])))
        tag = f"{kind}{dim}d_c2x2x2_{other}"
        try:
            res = op(X, Y)
        except LinearDependenceError:
            ctx.outcome(tag + ":LDE")
            ctx.require(f"C02:{tag}:no-LDE-when-every-position-is-independent", False)
            return
        ctx.outcome(tag + ":ok")
        ctx.require(f"C01:{tag}:collection-shape", tuple(res.shape[:3]) == (2, 2, 2) and res.free_indices == 3)
        if tuple(res.shape[:3]) != (2, 2, 2):
            return
        for idx in elems:
            u, v = E(elems[idx]), E(second[idx])
            ref = R.cross3(u, v) if dim == 2 else (flat(eps4_pq(u, v)) if kind == "join" else flat(wedge(u, v)))
            ctx.require(f"C01:{tag}:pos{list(idx)}", R.proj_equal(ctx, flat(R.mat(res.array[idx])) if res.array[idx].ndim == 2 else E(res.array[idx]), ref))
    return case


def mk_coll_lines3d(op_name, nsym=2):
    """collections of coplanar 3-D lines (vectorised Blinn branch): l_i = <a_i,b_i>, m_i = <a_i,c_i>"""
    def case(ctx):
        from geometer import LineCollection, join, meet
        from geometer.exceptions import LinearDependenceError, NotCoplanar
        pts = {k: [vec(ctx, f"{k}{i}", 4) for i in range(nsym)] for k in "abc"}
        conc = {"a": [1, 2, -1, 1], "b": [0, 1, 3, 1], "c": [2, 0, 1, -1]}
        for k in "abc":
            for i in range(nsym, 2):
                pts[k].append(ctx.const(conc[k], float))
        for i in range(2):
            ctx.assume(ctx.neg(_dep(ctx, [E(pts["a"][i]), E(pts["b"][i])])))
            ctx.assume(ctx.neg(_dep(ctx, [E(pts["a"][i]), E(pts["c"][i])])))
        L = LineCollection(np.stack([line3_from_points(ctx, pts["a"][i], pts["b"][i]).array for i in range(2)]))
        M = LineCollection(np.stack([line3_from_points(ctx, pts["a"][i], pts["c"][i]).array for i in range(2)]))
        op = meet if op_name == "meet" else join
        tag = f"{op_name}3d_ll_c2"
        same = [_dep(ctx, [E(pts["a"][i]), E(pts["b"][i]), E(pts["c"][i])]) for i in range(2)]
        try:
            res = op(L, M)
        except LinearDependenceError as e:
            if ctx.symbolic:
                for i in range(nsym):
                    li = line3_from_points(ctx, pts["a"][i], pts["b"][i])
                    mi = line3_from_points(ctx, pts["a"][i], pts["c"][i])
                    _blinn_hint(ctx, li, mi, E(pts["a"][i]), plane3(E(pts["a"][i]), E(pts["b"][i]), E(pts["c"][i])), suffix=str(i))
            for i in range(2):
                ctx.require(f"C02:{tag}:mask[{i}]", ctx.iff(ctx.truth(e.dependent_values[i]), same[i]))
            return
        except NotCoplanar:
            ctx.require(f"C02:{tag}:coplanar-never-NotCoplanar", False)
            return
        for i in range(2):
            ctx.require(f"C02:{tag}:no-raise-implies-distinct[{i}]", ctx.neg(same[i]))
            if op_name == "meet":
                ctx.require(f"C01:{tag}:pos[{i}]", R.proj_equal(ctx, E(res.array[i]), E(pts["a"][i])))
            else:
                ctx.require(f"C01:{tag}:pos[{i}]", R.proj_equal(ctx, E(res.array[i]), plane3(E(pts["a"][i]), E(pts["b"][i]), E(pts["c"][i]))))
    return case


def mk_ll_shapes(op_name, shape):
    """3-D line x line with collections in every argument position.  All lines pass through the concrete point a0 (so every
    pair is coplanar); one spanning point per side is symbolic, the others are concrete lattice points.
    shape: 'c2_s' (collection, single), 's_c2', 'c2x1' (2x1 grid from two collection axes), 'c2x2'"""
    A0 = [1, -2, 1, 1]
    BS = [None, [0, 1, 2, 1], [3, 1, 0, 2]]
    CS = [None, [2, 2, -1, 1], [1, 0, 0, -1]]

    def case(ctx):
        from geometer import LineCollection, join, meet
        from geometer.exceptions import LinearDependenceError, NotCoplanar
        a = ctx.const(A0, float)
        b0, c0 = vec(ctx, "b", 4), vec(ctx, "c", 4)
        ae = E(a)
        ctx.assume(ctx.neg(_dep(ctx, [ae, E(b0)])))
        ctx.assume(ctx.neg(_dep(ctx, [ae, E(c0)])))
        bs = [b0] + [ctx.const(x, float) for x in BS[1:]]
        cs = [c0] + [ctx.const(x, float) for x in CS[1:]]
        Ls = [line3_from_points(ctx, a, b) for b in bs]
        Ms = [line3_from_points(ctx, a, c) for c in cs]
        op = meet if op_name == "meet" else join
        if shape == "c2_s":
            X, Y = LineCollection(np.stack([Ls[0].array, Ls[1].array])), Ms[0]
            pos = {(0,): (bs[0], cs[0]), (1,): (bs[1], cs[0])}
        elif shape == "s_c2":
            X, Y = Ls[0], LineCollection(np.stack([Ms[0].array, Ms[1].array]))
            pos = {(0,): (bs[0], cs[0]), (1,): (bs[0], cs[1])}
        elif shape == "c2x1":
            X = LineCollection(np.stack([Ls[0].array, Ls[1].array])).expand_dims(1)
            Y = LineCollection(np.stack([Ms[1].array])).expand_dims(0)
            pos = {(0, 0): (bs[0], cs[1]), (1, 0): (bs[1], cs[1])}
        else:
            X = LineCollection(np.stack([Ls[0].array, Ls[1].array])).expand_dims(1)
            Y = LineCollection(np.stack([Ms[1].array, Ms[2].array])).expand_dims(0)
            pos = {(i, j): (bs[i], cs[1 + j]) for i in range(2) for j in range(2)}
        tag = f"{op_name}3d_ll_{shape}"
        same = {k: _dep(ctx, [ae, E(b), E(c)]) for k, (b, c) in pos.items()}
        try:
            res = op(X, Y)
        except LinearDependenceError as e:
            ctx.outcome(tag + ":LDE")
            ctx.require(f"C02:{tag}:LDE-implies-some-pair-coincides", ctx.any(list(same.values())))
            ctx.require(f"C02:{tag}:mask-shape", tuple(np.shape(e.dependent_values)) == tuple(max(k) + 1 for k in zip(*pos.keys())))
            return
        except NotCoplanar:
            ctx.outcome(tag + ":NotCoplanar")
            ctx.require(f"C02:{tag}:coplanar-never-NotCoplanar", False)
            return
        ctx.outcome(tag + ":ok")
        n_axes = len(next(iter(pos)))
        ctx.require(f"C01:{tag}:collection-shape", tuple(res.shape[:n_axes]) == tuple(max(k) + 1 for k in zip(*pos.keys())) and res.free_indices == n_axes)
        for k, (b, c) in pos.items():
            ctx.require(f"C02:{tag}:no-raise-implies-distinct{list(k)}", ctx.neg(same[k]))
            got = E(res.array[k])
            if op_name == "meet":
                ctx.require(f"C01:{tag}:pos{list(k)}", R.proj_equal(ctx, got, ae))
            else:
                ctx.require(f"C01:{tag}:pos{list(k)}", R.proj_equal(ctx, got, plane3(ae, E(b), E(c))))
    return case


def mk_ll_mixed_skew(op_name, concrete=False):
    """collection of two pairs: pair 0 coplanar (symbolic, common point; or lattice), pair 1 skew (concrete) => NotCoplanar"""
    def case(ctx):
        from geometer import LineCollection, join, meet
        from geometer.exceptions import LinearDependenceError, NotCoplanar
        if concrete:
            a, b, c = ctx.const([1, 2, 0, 1], float), ctx.const([0, 1, 3, 1], float), ctx.const([2, -1, 1, 1], float)
        else:
            a, b, c = (vec(ctx, n, 4) for n in "abc")
        ctx.assume(ctx.neg(_dep(ctx, [E(a), E(b)])))
        ctx.assume(ctx.neg(_dep(ctx, [E(a), E(c)])))
        l0, m0 = line3_from_points(ctx, a, b), line3_from_points(ctx, a, c)
        l1 = line3_from_points(ctx, ctx.const([0, 0, 0, 1], float), ctx.const([1, 0, 0, 1], float))
        m1 = line3_from_points(ctx, ctx.const([0, 1, 1, 1], float), ctx.const([0, 2, 1, 1], float))
        op = meet if op_name == "meet" else join
        for order in ("01", "10"):
            Ls = [l0, l1] if order == "01" else [l1, l0]
            Ms = [m0, m1] if order == "01" else [m1, m0]
            X = LineCollection(np.stack([x.array for x in Ls]))
            Y = LineCollection(np.stack([x.array for x in Ms]))
            try:
                op(X, Y)
                t = "ok"
            except NotCoplanar:
                t = "NotCoplanar"
            except LinearDependenceError:
                t = "LDE"
            ctx.require(f"C02:{op_name}3d_ll_mixed_skew[{order}]:raises-NotCoplanar", t == "NotCoplanar")
    return case


def case_divide_pow2(ctx):
    """_divide_by_power_of_two(x, e) = x * u with one u > 0, real and complex arrays"""
    from geometer.point import _divide_by_power_of_two
    x = ctx.reals("x", 3)
    z = ctx.complexes("z", 2)
    if ctx.symbolic:
        from symgeo.alg import fresh, Alg
        from symgeo.symarr import Pow2, SymArray
        u = Alg.var(fresh("unit", base="U", positive=True))
        pw = Pow2(u)
        y = _divide_by_power_of_two(x, pw)
        for a, b in zip(E(x), E(y)):
            ctx.require("C01:pow2:real-scaled", ctx.eq(b * u, a))
        w = _divide_by_power_of_two(z, pw)
        for a, b in zip(E(z), E(w)):
            ctx.require("C01:pow2:complex-scaled", ctx.eq(b * u, a))
    else:
        y = _divide_by_power_of_two(x, 3)
        ctx.require("C01:pow2:real-scaled", ctx.eq(y * 8, x))
        w = _divide_by_power_of_two(z, 3)
        ctx.require("C01:pow2:complex-scaled", ctx.eq(w * 8, z))


def all_cases(tier):
    """(name, fn, kwargs)"""
    Q, T = ("quick", "thorough"), ("thorough",)
    cs = [
        ("join2d_r", mk_join2d(False, False), dict(tiers=Q)),
        ("meet2d_r", mk_join2d(False, True), dict(tiers=Q)),
        ("join2d_c", mk_join2d(True, False), dict(tiers=Q)),
        ("meet2d_c", mk_join2d(True, True), dict(tiers=Q)),
        ("roundtrip2d", case_roundtrip2d, dict(tiers=Q)),
        ("roundtrip2d_dual", case_roundtrip2d_dual, dict(tiers=Q)),
        ("join3d_pq_r", mk_join3d_pq(False), dict(tiers=Q)),
        ("join3d_pq_c", mk_join3d_pq(True), dict(tiers=Q)),
        ("join3d_pqr_r", mk_join3d_pqr(False, False), dict(tiers=Q)),
        ("meet3d_efg_r", mk_join3d_pqr(False, True), dict(tiers=Q)),
        ("join3d_pqr_c", mk_join3d_pqr(True, False), dict(tiers=Q)),
        ("meet3d_ef_r", mk_meet3d_ef(False), dict(tiers=Q)),
        ("meet3d_ef_c", mk_meet3d_ef(True), dict(tiers=Q)),
        ("join3d_pl", mk_join_point_line("pl"), dict(tiers=Q)),
        ("join3d_lp", mk_join_point_line("lp"), dict(tiers=Q)),
        ("join3d_pl_cov", mk_join_point_line("pl", True), dict(tiers=T)),
        ("join3d_pl_c", mk_join_point_line("pl", cplx=True), dict(tiers=Q)),
        ("join3d_lp_c", mk_join_point_line("lp", cplx=True), dict(tiers=Q)),
        ("meet3d_el_c", mk_meet_plane_line("el", cplx=True), dict(tiers=Q)),
        ("meet3d_le_c", mk_meet_plane_line("le", cplx=True), dict(tiers=T)),
        ("meet3d_el", mk_meet_plane_line("el"), dict(tiers=Q)),
        ("meet3d_le", mk_meet_plane_line("le"), dict(tiers=Q)),
        ("meet3d_le_cov", mk_meet_plane_line("le", True), dict(tiers=T)),
        ("meet3d_el_contained", mk_plane_contains_line("el"), dict(tiers=Q)),
        ("meet3d_le_contained", mk_plane_contains_line("le"), dict(tiers=Q)),
        ("meet3d_ll", mk_lines_common_point("meet"), dict(tiers=Q)),
        ("join3d_ll", mk_lines_common_point("join"), dict(tiers=Q)),
        ("meet3d_ll_cov", mk_lines_common_point("meet", True), dict(tiers=T)),
        ("meet3d_ll_swap", mk_lines_common_point("meet", swap=True, shared="second"), dict(tiers=Q)),
        ("join3d_ll_swap", mk_lines_common_point("join", swap=True, shared="second"), dict(tiers=T)),
        ("skew_meet", mk_skew("meet"), dict(tiers=Q)),
        ("skew_join", mk_skew("join"), dict(tiers=Q)),
        ("roundtrip3d", case_roundtrip3d, dict(tiers=Q)),
        ("divide_pow2", case_divide_pow2, dict(tiers=Q)),
    ]
    for kind in ("join", "meet"):
        for dim in (2, 3):
            for shape in ("c2", "s_c2", "c2x1"):
                cs.append((f"{kind}{dim}d_{shape}", mk_coll(kind, dim, shape), dict(tiers=Q if (dim == 2 or shape == "c2") else T)))
    for kind in ("join", "meet"):
        for dim in (2, 3):
            for other in ("single", "c2"):
                cs.append((f"{kind}{dim}d_c2x2x2_{other}", mk_three_axes(kind, dim, other), dict(tiers=Q)))
    for shp in ("c2_s", "s_c2", "c2x1", "c2x2"):
        cs.append((f"meet3d_ll_{shp}", mk_ll_shapes("meet", shp), dict(tiers=Q)))
        cs.append((f"join3d_ll_{shp}", mk_ll_shapes("join", shp), dict(tiers=Q if shp in ("c2_s", "c2x1") else T)))
    cs.append(("meet3d_ll_mixed_skew_lattice", mk_ll_mixed_skew("meet", True), dict(tiers=Q)))
    cs.append(("join3d_ll_mixed_skew_lattice", mk_ll_mixed_skew("join", True), dict(tiers=Q)))
    cs.append(("meet3d_ll_mixed_skew", mk_ll_mixed_skew("meet"), dict(tiers=Q)))
    cs.append(("join3d_ll_mixed_skew", mk_ll_mixed_skew("join"), dict(tiers=Q)))
    cs.append(("meet3d_ll_c2_1sym", mk_coll_lines3d("meet", 1), dict(tiers=Q)))
    cs.append(("join3d_ll_c2_1sym", mk_coll_lines3d("join", 1), dict(tiers=Q)))
    cs.append(("meet3d_ll_c2", mk_coll_lines3d("meet"), dict(tiers=T, max_paths=3000)))
    cs.append(("join3d_ll_c2", mk_coll_lines3d("join"), dict(tiers=T, max_paths=3000)))
    return cs
