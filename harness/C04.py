"""C04 - collections compute element by element what single objects compute."""
from __future__ import annotations

import numpy as np

from symgeo.driver import Case
from symgeo import refgeo as R
from harness.common import vec, E
from harness.tr import mk_array

EVIDENCE = {
    "functions": ["TensorCollection.__getitem__/__iter__/from_tensor/from_array/expand_dims", "PointCollection / LineCollection / PlaneCollection / QuadricCollection / "
                  "TransformationCollection / SegmentCollection / PolygonCollection operations listed under coverage.cases", "base.TensorDiagram.calculate (collection axis alignment)"],
    "bounds": "collections of length 2 (and 1), one collection axis; a single object broadcast against a collection; 2-D for every operation, 3-D for join/meet/contains/transform; "
              "all coordinates free reals; positionwise comparison with the same operation on the two single objects (run on the same symbolic inputs)",
    "outside": "more than one collection axis except for join/meet (C01) and transformation of hyperplanes (C06), collections longer than 2, rounding",
    "assumptions": ["ProjectiveTensor.__eq__/is_multiple: lemma proved in C20"],
}


def _setup():
    from symgeo.lemmas import use_is_multiple_lemma
    use_is_multiple_lemma(True)


def _nz(ctx, v):
    ctx.assume(R.nonzero(ctx, E(v)))
    return v


def _coll(cls, singles):
    return cls(np.stack([s.array for s in singles]))


def _call(f, *a):
    try:
        return "ok", f(*a)
    except Exception as e:
        from symgeo.state import UnsupportedSymbolic
        if isinstance(e, UnsupportedSymbolic):
            raise
        return type(e).__name__, None


def _cmp_pos(ctx, tag, res, i, ri, n):
    """res: result of the collection operation, ri: result for the singles at position i"""
    from geometer.base import Tensor
    if isinstance(ri, (list, tuple)):
        ctx.require(f"{tag}:list-length", isinstance(res, (list, tuple)) and len(res) == len(ri))
        if isinstance(res, (list, tuple)) and len(res) == len(ri):
            for k, (x, y) in enumerate(zip(res, ri)):
                _cmp_pos(ctx, f"{tag}[{k}]", x, i, y, n)
        return
    if isinstance(ri, Tensor):
        ctx.require(f"{tag}:is-collection", isinstance(res, Tensor) and res.free_indices >= 1 and res.shape[0] == n)
        if not (isinstance(res, Tensor) and res.free_indices >= 1 and res.shape[0] == n):
            return
        el = res[i]
        ctx.require(f"{tag}:element-class", type(el) is type(ri))
        ctx.require(f"{tag}:element-value", R.proportional(ctx, E(res.array[i]), E(ri.array)))
        ctx.require(f"{tag}:tensor_shape", res.tensor_shape == ri.tensor_shape)
        return
    # numbers / booleans: arrays with one entry per position
    shp = getattr(res, "shape", None)
    ctx.require(f"{tag}:shape", shp is not None and len(shp) >= 1 and shp[0] == n)
    if shp is None or len(shp) < 1 or shp[0] != n:
        return
    x = res[i]
    if getattr(x, "ndim", 0) >= 1:
        ctx.require(f"{tag}:element-shape", tuple(x.shape) == tuple(np.shape(ri)))
        if tuple(x.shape) == tuple(np.shape(ri)):
            ctx.require(f"{tag}:numbers", ctx.all([ctx.eq(u, v) for u, v in zip(E(x), E(ri))]))
        return
    isb = isinstance(ri, (bool, np.bool_)) or type(ri).__name__ == "SymBool" or getattr(ri, "dtype", None) == np.dtype(bool)
    if isb:
        ctx.require(f"{tag}:truth", ctx.iff(ctx.truth(x), ctx.truth(ri)))
    else:
        sx, sr = getattr(x, "special", None), getattr(ri, "special", None)
        if sx or sr:
            ctx.require(f"{tag}:special", sx == sr)
        else:
            ctx.require(f"{tag}:number", ctx.eq(x, ri))


def mk_elementwise(name, build, op, n=2):
    """build(ctx) -> list of arguments; each argument is ('c', cls, [s0, s1]) (collection from singles) or ('s', obj) (single, broadcast)"""
    def case(ctx):
        args = build(ctx)
        coll_args = [(_coll(a[1], a[2][:n]) if a[0] == "c" else a[1]) for a in args]
        t, res = _call(op, *coll_args)
        outs = []
        for i in range(n):
            single_args = [(a[2][i] if a[0] == "c" else a[1]) for a in args]
            outs.append(_call(op, *single_args))
        ctx.outcome(f"coll:{t}/" + ",".join(o[0] for o in outs))
        if t != "ok":
            # the collection operation may only fail if some position fails on its own
            if all(o[0] == "ok" for o in outs):
                ctx.hunt(f"{name}:collection-raises-only-if-a-position-does", False)
            return
        for i, (ti, ri) in enumerate(outs):
            if ti != "ok":
                ctx.hunt(f"{name}:pos{i}:single-raises-but-collection-does-not", False)
                continue
            _cmp_pos(ctx, f"{name}:pos{i}", res, i, ri, n)
    return case


# ------------------------------------------------------------------ builders

def pts(ctx, names, dim=2):
    from geometer import Point
    return [Point(_nz(ctx, vec(ctx, k, dim + 1))) for k in names]


def lns(ctx, names):
    from geometer import Line
    return [Line(_nz(ctx, vec(ctx, k, 3))) for k in names]


def b_PQ(dim=2, finite=False):
    def b(ctx):
        from geometer import PointCollection
        ps, qs = pts(ctx, ["p0", "p1"], dim), pts(ctx, ["q0", "q1"], dim)
        if finite:
            for x in ps + qs:
                ctx.assume(ctx.neg(ctx.is_zero(E(x)[-1])))
        return [("c", PointCollection, ps), ("c", PointCollection, qs)]
    return b


def b_Pq(ctx, finite=False):
    from geometer import PointCollection
    ps, q = pts(ctx, ["p0", "p1"]), pts(ctx, ["q"])[0]
    if finite:
        for x in ps + [q]:
            ctx.assume(ctx.neg(ctx.is_zero(E(x)[-1])))
    return [("c", PointCollection, ps), ("s", q)]


def b_LP(ctx):
    from geometer import PointCollection, LineCollection
    return [("c", LineCollection, lns(ctx, ["l0", "l1"])), ("c", PointCollection, pts(ctx, ["p0", "p1"]))]


def b_lP(ctx):
    from geometer import PointCollection
    return [("s", lns(ctx, ["l"])[0]), ("c", PointCollection, pts(ctx, ["p0", "p1"]))]


def b_Lp(ctx):
    from geometer import LineCollection
    return [("c", LineCollection, lns(ctx, ["l0", "l1"])), ("s", pts(ctx, ["p"])[0])]


def b_LM(ctx):
    from geometer import LineCollection
    return [("c", LineCollection, lns(ctx, ["l0", "l1"])), ("c", LineCollection, lns(ctx, ["m0", "m1"]))]


def b_L(ctx):
    from geometer import LineCollection
    return [("c", LineCollection, lns(ctx, ["l0", "l1"]))]


def b_P(ctx):
    from geometer import PointCollection
    return [("c", PointCollection, pts(ctx, ["p0", "p1"]))]


def b_PQR(ctx):
    from geometer import PointCollection
    return [("c", PointCollection, pts(ctx, [f"{k}0", f"{k}1"])) for k in "pqr"]


def b_PQRS(ctx):
    from geometer import PointCollection
    return [("c", PointCollection, pts(ctx, [f"{k}0", f"{k}1"])) for k in "pqrs"]


def b_TP(ctx):
    from geometer import TransformationCollection, Transformation, PointCollection
    ts = []
    for k in range(2):
        t = ctx.reals(f"t{k}", 3, 3)
        ctx.assume(ctx.neg(ctx.is_zero(R.det(R.mat(t)))))
        ts.append(Transformation(t))
    return [("c", TransformationCollection, ts), ("c", PointCollection, pts(ctx, ["p0", "p1"]))]


def b_Tp(ctx):
    """collection of transformations x single point (and, b_tP, single transformation x collection of points)"""
    a = b_TP(ctx)
    return [a[0], ("s", pts(ctx, ["p"])[0])]


def b_tP(ctx):
    from geometer import Transformation, PointCollection
    t = ctx.reals("t", 3, 3)
    ctx.assume(ctx.neg(ctx.is_zero(R.det(R.mat(t)))))
    return [("s", Transformation(t)), ("c", PointCollection, pts(ctx, ["p0", "p1"]))]


def b_TL(ctx):
    from geometer import LineCollection
    a = b_TP(ctx)
    return [a[0], ("c", LineCollection, lns(ctx, ["l0", "l1"]))]


def _conics(ctx):
    from geometer import Conic, Quadric
    out = []
    for k in range(2):
        s = ctx.reals(f"s{k}", 3, 3)
        S = R.mat(s)
        rows = [[S[min(i, j)][max(i, j)] for j in range(3)] for i in range(3)]
        ctx.assume(ctx.neg(ctx.is_zero(R.det(rows))))
        out.append(Quadric(mk_array(ctx, rows)))
    return out


def b_QP(ctx):
    from geometer import QuadricCollection, PointCollection
    return [("c", QuadricCollection, _conics(ctx)), ("c", PointCollection, pts(ctx, ["p0", "p1"]))]


def b_QL(ctx):
    from geometer import QuadricCollection, LineCollection
    return [("c", QuadricCollection, _conics(ctx)), ("c", LineCollection, lns(ctx, ["l0", "l1"]))]


def b_Q(ctx):
    from geometer import QuadricCollection
    return [("c", QuadricCollection, _conics(ctx))]


def _segments(ctx):
    from geometer import Segment, Point
    out = []
    for k in range(2):
        a, b = _nz(ctx, vec(ctx, f"a{k}", 3)), _nz(ctx, vec(ctx, f"b{k}", 3))
        ctx.assume(ctx.neg(R.rank_deficient(ctx, [E(a), E(b)])))
        ctx.assume(ctx.neg(ctx.is_zero(E(a)[2])))
        ctx.assume(ctx.neg(ctx.is_zero(E(b)[2])))
        out.append(Segment(Point(a), Point(b)))
    return out


def b_SP(ctx):
    from geometer import SegmentCollection, PointCollection
    return [("c", SegmentCollection, _segments(ctx)), ("c", PointCollection, pts(ctx, ["p0", "p1"]))]


def b_SlatP(ctx):
    """two lattice segments x two free finite points"""
    from geometer import SegmentCollection, PointCollection, Segment, Point
    c = lambda *v: Point(ctx.const(list(v), float))
    segs = [Segment(c(0, 0, 1), c(1, 0, 1)), Segment(c(1, -1, 1), c(2, 2, 1))]
    ps = pts(ctx, ["p0", "p1"])
    for p in ps:
        ctx.assume(ctx.neg(ctx.is_zero(E(p.array)[2])))
    return [("c", SegmentCollection, segs), ("c", PointCollection, ps)]


def b_S(ctx):
    from geometer import SegmentCollection
    return [("c", SegmentCollection, _segments(ctx))]


def _polys(ctx, dim=2, shear=True):
    from geometer import Polygon, Point
    base = [[(0, 0), (2, 0), (2, 2), (0, 2)], [(0, 0), (3, 0), (1, 1), (0, 2)]]
    out = []
    for k, poly in enumerate(base):
        sx = ctx.real(f"sx{k}") if shear else 0
        if shear:
            ctx.assume(ctx.lt(-1, sx))
            ctx.assume(ctx.lt(sx, 1))
        if dim == 2:
            out.append(Polygon(*[Point(mk_array(ctx, [x + (sx if x else 0), y, 1])) for x, y in poly]))
        else:
            h = ctx.real(f"h{k}")
            out.append(Polygon(*[Point(mk_array(ctx, [x + (sx if x else 0), y, h, 1])) for x, y in poly]))
    return out


def b_POLY_P(dim=2):
    def b(ctx):
        from geometer import PolygonCollection, PointCollection
        return [("c", PolygonCollection, _polys(ctx, dim, shear=False)), ("c", PointCollection, pts(ctx, ["p0", "p1"], dim))]
    return b


def b_POLY_p3(ctx):
    from geometer import PolygonCollection
    return [("c", PolygonCollection, _polys(ctx, 3, shear=False)), ("s", pts(ctx, ["p"], 3)[0])]


def b_POLY_p2(ctx):
    from geometer import PolygonCollection
    return [("c", PolygonCollection, _polys(ctx, 2, shear=False)), ("s", pts(ctx, ["p"], 2)[0])]


def b_POLY(dim=2):
    def b(ctx):
        from geometer import PolygonCollection
        return [("c", PolygonCollection, _polys(ctx, dim))]
    return b


def b_POLY3_flat(ctx):
    """two lattice 4-gons in the planes z = h0, z = h1 (free real heights)"""
    from geometer import PolygonCollection
    return [("c", PolygonCollection, _polys(ctx, 3, shear=False))]


# ------------------------------------------------------------------ structural: indexing / iteration keep class and attributes

def case_index_structure(ctx):
    from geometer import PointCollection, LineCollection, QuadricCollection, SegmentCollection, TransformationCollection, PolygonCollection
    from geometer import Point, Line, Quadric, Segment, Transformation, Polygon
    P = _coll(PointCollection, pts(ctx, ["p0", "p1"]))
    L = _coll(LineCollection, lns(ctx, ["l0", "l1"]))
    qs = _conics(ctx)
    Q = _coll(QuadricCollection, qs)
    Qd = QuadricCollection(np.stack([q.array for q in qs]), is_dual=True)
    S = _coll(SegmentCollection, _segments(ctx))
    for name, C, cls in (("points", P, Point), ("lines", L, Line), ("quadrics", Q, Quadric), ("dual-quadrics", Qd, Quadric), ("segments", S, Segment)):
        items = list(C)
        ctx.require(f"{name}:iter-length", len(items) == 2)
        for i in (0, 1, -1):
            el = C[i]
            ctx.require(f"{name}[{i}]:class", type(el) is cls)
            ctx.require(f"{name}[{i}]:array-is-row", all(x is y for x, y in zip(E(el.array), E(C.array[i]))))
            ctx.require(f"{name}[{i}]:tensor_shape", el.tensor_shape == C.tensor_shape)
            if hasattr(C, "is_dual"):
                ctx.require(f"{name}[{i}]:is_dual-kept", getattr(el, "is_dual", None) == C.is_dual)
            if hasattr(C, "pdim"):
                ctx.require(f"{name}[{i}]:pdim-kept", getattr(el, "pdim", None) == C.pdim)
            if name == "segments":
                ln = getattr(el, "_line", None)
                ctx.require(f"{name}[{i}]:has-line", ln is not None)
                if ln is not None:
                    a, b = E(el.array[0]), E(el.array[1])
                    ctx.require(f"{name}[{i}]:line-through-vertices", ctx.all([ctx.is_zero(R.dot(E(ln.array), a)), ctx.is_zero(R.dot(E(ln.array), b))]))
        for i, el in enumerate(items):
            ctx.require(f"{name}:iter[{i}]:class", type(el) is cls)
    one = PointCollection(np.stack([P.array[0]]))
    ctx.require("length-1:class", type(one[0]) is Point and len(list(one)) == 1)


def ops():
    from geometer import join, meet, dist, crossratio, is_collinear, is_perpendicular, harmonic_set
    Q, T = ("quick", "thorough"), ("thorough",)
    o = [
        ("contains", b_LP, lambda L, P: L.contains(P), Q),
        ("contains_single_line", b_lP, lambda l, P: l.contains(P), Q),
        ("contains_single_point", b_Lp, lambda L, p: L.contains(p), Q),
        ("join", b_PQ(2), lambda P, Q_: join(P, Q_), Q),
        ("join_broadcast", b_Pq, lambda P, q: join(P, q), Q),
        ("join3d", b_PQ(3), lambda P, Q_: join(P, Q_), Q),
        ("meet", b_LM, lambda L, M: meet(L, M), Q),
        ("is_parallel", b_LM, lambda L, M: L.is_parallel(M), Q),
        ("parallel", b_LP, lambda L, P: L.parallel(P), Q),
        ("perpendicular", b_LP, lambda L, P: L.perpendicular(P), T),
        ("project", b_LP, lambda L, P: L.project(P), T),
        ("mirror", b_LP, lambda L, P: L.mirror(P), Q),
        ("base_point", b_L, lambda L: L.base_point, Q),
        ("direction", b_L, lambda L: L.direction, Q),
        ("basis_matrix", b_L, lambda L: L.basis_matrix, Q),
        ("general_point", b_L, lambda L: L.general_point, Q),
        ("isinf", b_P, lambda P: P.isinf, Q),
        ("normalized_array", b_P, lambda P: P.normalized_array, Q),
        ("add", b_PQ(2), lambda P, Q_: P + Q_, Q),
        ("sub", b_PQ(2), lambda P, Q_: P - Q_, Q),
        ("add_broadcast", b_Pq, lambda P, q: P + q, Q),
        ("mul_scalar", b_P, lambda P: 3 * P, Q),
        ("div_scalar", b_P, lambda P: P / 2, Q),
        ("dist_pp", b_PQ(2, True), lambda P, Q_: dist(P, Q_), Q),
        ("dist_pp_broadcast", (lambda ctx: b_Pq(ctx, True)), lambda P, q: dist(P, q), Q),
        ("is_collinear", b_PQR, lambda P, Q_, R_: is_collinear(P, Q_, R_), Q),
        ("is_collinear4", b_PQRS, lambda P, Q_, R_, S_: is_collinear(P, Q_, R_, S_), Q),
        ("is_perpendicular", b_LM, lambda L, M: is_perpendicular(L, M), Q),
        ("transform_points", b_TP, lambda T_, P: T_ * P, Q),
        ("transform_lines", b_TL, lambda T_, L: T_ * L, Q),
        ("transform_single_point_by_collection", b_Tp, lambda T_, p: T_ * p, Q),
        ("transform_points_by_single", b_tP, lambda t, P: t * P, Q),
        ("transform_inverse", b_TP, lambda T_, P: T_.inverse(), Q),
        ("quadric_contains", b_QP, lambda Q_, P: Q_.contains(P), Q),
        ("quadric_tangent", b_QP, lambda Q_, P: Q_.tangent(P), Q),
        ("quadric_is_tangent", b_QL, lambda Q_, L: Q_.is_tangent(L), Q),
        ("quadric_is_degenerate", b_Q, lambda Q_: Q_.is_degenerate, Q),
        ("quadric_dual", b_Q, lambda Q_: Q_.dual, Q),
        ("segment_contains", b_SP, lambda S, P: S.contains(P), Q),
        ("segment_length", b_S, lambda S: S.length, Q),
        ("dist_segment_point", b_SP, lambda S, P: dist(S, P), ("attempt",)),
        ("dist_lattice_segment_point", b_SlatP, lambda S, P: dist(S, P), Q),
        ("segment_midpoint", b_S, lambda S: S.midpoint, T),
        ("polygon_contains", b_POLY_P(2), lambda C, P: C.contains(P), Q),
        ("polygon_area", b_POLY(2), lambda C: C.area, Q),
        ("polygon3d_contains", b_POLY_P(3), lambda C, P: C.contains(P), Q),
        ("polygon3d_contains_broadcast", b_POLY_p3, lambda C, p: C.contains(p), Q),
        ("polygon_contains_broadcast", b_POLY_p2, lambda C, p: C.contains(p), Q),
        ("polygon3d_area", b_POLY(3), lambda C: C.area, T),
        ("polygon3d_area_free_heights", b_POLY3_flat, lambda C: C.area, Q),
    ]
    return o


def cases(tier, seed):
    cs = [Case("index_structure", case_index_structure, setup=_setup)]
    for name, build, op, tiers in ops():
        cs.append(Case(name, mk_elementwise(name, build, op), setup=_setup, tiers=tiers, max_paths=3000))
    return cs
