"""C19 - tensor arithmetic and index bookkeeping follow the array semantics."""
from __future__ import annotations

import itertools
import random
import time

import numpy as np

from symgeo.driver import Case
from symgeo import refgeo as R
from harness.common import E

EVIDENCE = {
    "functions": ["base.Tensor.__add__/__radd__/__sub__/__rsub__/__mul__/__rmul__/__truediv__/__neg__/__array_ufunc__", "utils.ops_dispatch.maybe_dispatch_ufunc_to_dunder_op",
                  "point.PointLikeTensor.__add__/__sub__/__mul__/__truediv__/_normalize_array", "curve.QuadricTensor.__add__/__sub__", "point.SubspaceTensor.__add__/__sub__",
                  "base.Tensor.__getitem__/_get_index_mapping", "utils.indexing.normalize_index/sanitize_index/replace_ellipsis", "base.Tensor.transpose/T/tensor_product/copy",
                  "base.TensorCollection.expand_dims/__getitem__"],
    "bounds": "arithmetic: operands Tensor / Point / PointCollection(2) / Line / Quadric x {same class, Tensor, ndarray, python int/float/complex, numpy scalar, 0-d array}, left and right, "
              "all entries free reals; points in 2-D and 3-D incl. points at infinity (last coordinate 0 is a path). indexing: every index expression of length <= rank+1 from the grammar "
              "{int >= 0, int < 0, ':', 'a:b', '::-1', None, Ellipsis, 1-D int array, 2-D int array, 1-D bool array, full-rank bool array} over tensors of rank <= 3 and every "
              "covariant/contravariant/collection pattern (seeded subset in quick, all in thorough); permutations of rank <= 4 for transpose",
    "outside": "the indexing half has no value quantifier: it is an exhaustive enumeration of the bounded grammar compared with an independent axis-tracking model (validated against numpy on "
               "label arrays); rank > 3; rounding",
    "assumptions": [],
}


# ------------------------------------------------------------------ arithmetic (symbolic)

def _chk(ctx, tag, got, ref_elems, cls=None, tshape=None):
    ge = E(got) if not np.isscalar(got) else [got]
    ctx.require(f"{tag}:size", len(ge) == len(ref_elems))
    if len(ge) != len(ref_elems):
        return
    for i, (g, r) in enumerate(zip(ge, ref_elems)):
        ctx.require(f"{tag}[{i}]", ctx.eq(g, r))
    if cls is not None:
        ctx.require(f"{tag}:class", type(got).__name__ == cls)
    if tshape is not None:
        ctx.require(f"{tag}:tensor_shape", got.tensor_shape == tshape)


def case_tensor_arith(ctx):
    from geometer.base import Tensor
    a = ctx.reals("a", 2, 3)
    b = ctx.reals("b", 2, 3)
    t = Tensor(a, covariant=[0])
    u = Tensor(b, covariant=[0])
    ae, be = E(a), E(b)
    c = ctx.real("c")
    ctx.assume(ctx.neg(ctx.is_zero(c)))
    ts = (1, 1)
    _chk(ctx, "t+u", t + u, [x + y for x, y in zip(ae, be)], "Tensor", ts)
    _chk(ctx, "t-u", t - u, [x - y for x, y in zip(ae, be)], "Tensor", ts)
    _chk(ctx, "t+arr", t + b, [x + y for x, y in zip(ae, be)], "Tensor", ts)
    _chk(ctx, "arr+t", b + t, [x + y for x, y in zip(ae, be)], "Tensor", ts)
    _chk(ctx, "t-arr", t - b, [x - y for x, y in zip(ae, be)], "Tensor", ts)
    _chk(ctx, "arr-t", b - t, [y - x for x, y in zip(ae, be)], "Tensor", ts)
    _chk(ctx, "t+2", t + 2, [x + 2 for x in ae], "Tensor", ts)
    _chk(ctx, "2+t", 2 + t, [x + 2 for x in ae], "Tensor", ts)
    _chk(ctx, "t-2", t - 2, [x - 2 for x in ae], "Tensor", ts)
    _chk(ctx, "2-t", 2 - t, [2 - x for x in ae], "Tensor", ts)
    _chk(ctx, "t*c", t * c, [x * c for x in ae], "Tensor", ts)
    _chk(ctx, "c*t", c * t, [x * c for x in ae], "Tensor", ts)
    _chk(ctx, "t*2.5", t * 2.5, [x * 2.5 for x in ae], "Tensor", ts)
    _chk(ctx, "t/c", t / c, [x / c for x in ae], "Tensor", ts)
    _chk(ctx, "t/4", t / 4, [x / 4 for x in ae], "Tensor", ts)
    _chk(ctx, "-t", -t, [-x for x in ae], "Tensor", ts)
    _chk(ctx, "np.add(t,u)", np.add(t, u), [x + y for x, y in zip(ae, be)], "Tensor", ts)
    _chk(ctx, "np.subtract(t,arr)", np.subtract(t, b), [x - y for x, y in zip(ae, be)], "Tensor", ts)
    _chk(ctx, "np.subtract(arr,t)", np.subtract(b, t), [y - x for x, y in zip(ae, be)], "Tensor", ts)
    _chk(ctx, "np.multiply(t,3)", np.multiply(t, 3), [x * 3 for x in ae], "Tensor", ts)
    _chk(ctx, "np.multiply(3,t)", np.multiply(3, t), [x * 3 for x in ae], "Tensor", ts)
    _chk(ctx, "np.true_divide(t,2)", np.true_divide(t, 2), [x / 2 for x in ae], "Tensor", ts)
    _chk(ctx, "np.negative(t)", np.negative(t), [-x for x in ae], "Tensor", ts)
    _chk(ctx, "t*np.float64", t * np.float64(2.0), [x * 2 for x in ae], "Tensor", ts)
    _chk(ctx, "t*0d", t * np.array(3), [x * 3 for x in ae], "Tensor", ts)
    z = t * (1 + 2j)
    _chk(ctx, "t*complex", z, [x * (1 + 2j) for x in ae], "Tensor", ts)


def mk_point_arith(dim, coll=False):
    """affine vector arithmetic on dehomogenised coordinates; a point at infinity acts as a direction"""
    def case(ctx):
        from geometer import Point, PointCollection
        n = dim + 1
        pa, qa = ctx.reals("p", n), ctx.reals("q", n)
        p, q = Point(pa), Point(qa)
        pe, qe = E(pa), E(qa)
        c = ctx.real("c")
        pinf, qinf = ctx.fork(ctx.is_zero(pe[-1])), ctx.fork(ctx.is_zero(qe[-1]))
        ctx.outcome(f"pinf={pinf},qinf={qinf}")
        def cart(v, inf):
            return list(v[:-1]) if inf else [x / v[-1] for x in v[:-1]]
        P_, Q_ = cart(pe, pinf), cart(qe, qinf)
        w = 0 if (pinf and qinf) else 1
        def expect(vals, w):
            return list(vals) + [w]
        def check(tag, res, vals, w):
            re_ = E(res)
            ctx.require(f"{tag}:class", type(res).__name__ == "Point")
            if w == 1:
                ctx.require(f"{tag}:finite", ctx.neg(ctx.is_zero(re_[-1])))
                for i in range(dim):
                    ctx.require(f"{tag}[{i}]", ctx.eq(re_[i], vals[i] * re_[-1]))
            else:
                ctx.require(f"{tag}:at-infinity", ctx.is_zero(re_[-1]))
                # a point at infinity acts as a direction *vector*: its magnitude matters for later sums, so exact equality
                for i in range(dim):
                    ctx.require(f"{tag}:direction[{i}]", ctx.eq(re_[i], vals[i]))
        check("p+q", p + q, [x + y for x, y in zip(P_, Q_)], w)
        check("p-q", p - q, [x - y for x, y in zip(P_, Q_)], w)
        check("c*p", c * p, [c * x for x in P_], 0 if pinf else 1)
        check("p*c", p * c, [c * x for x in P_], 0 if pinf else 1)
        ctx.assume(ctx.neg(ctx.is_zero(c)))
        check("p/c", p / c, [x / c for x in P_], 0 if pinf else 1)
        # non-point operands: plain array arithmetic on the homogeneous array
        arr = ctx.const(list(range(1, n + 1)), float)
        _chk(ctx, "p+arr", p + arr, [x + (i + 1) for i, x in enumerate(pe)])
        _chk(ctx, "p-arr", p - arr, [x - (i + 1) for i, x in enumerate(pe)])
        # -p and array - p go through the point's scalar multiplication (affine negation): covered by c*p above with c = -1
    return case


def case_quadric_line_arith(ctx):
    from geometer import Quadric, Line, Point
    s = ctx.reals("s", 3, 3)
    S = R.mat(s)
    rows = [[S[min(i, j)][max(i, j)] for j in range(3)] for i in range(3)]
    from harness.tr import mk_array
    qa = mk_array(ctx, rows)
    q = Quadric(qa)
    other = ctx.const([[1, 2, 0], [2, -1, 3], [0, 3, 2]], float)
    qe, oe = E(qa), E(other)
    _chk(ctx, "quadric+arr", q + other, [x + y for x, y in zip(qe, oe)])
    _chk(ctx, "quadric-arr", q - other, [x - y for x, y in zip(qe, oe)])
    l = Line(ctx.reals("l", 3))
    le = E(l)
    arr = ctx.const([1, 2, 3], float)
    _chk(ctx, "line+arr", l + arr, [x + y for x, y in zip(le, [1, 2, 3])])
    _chk(ctx, "line-arr", l - arr, [x - y for x, y in zip(le, [1, 2, 3])])
    _chk(ctx, "line*2", l * 2, [2 * x for x in le])
    # line + point = translated line: contains p0 + v whenever the line contains p0
    v = ctx.reals("v", 2)
    ve = E(v)
    lt = l + Point(v[0], v[1]) if not ctx.symbolic else l + Point(mk_array(ctx, [ve[0], ve[1], 1]))
    lte = E(lt)
    # (x, y, 1) on l  <=>  (x+v0, y+v1, 1) on lt :  lt ~ (l0, l1, l2 - l0 v0 - l1 v1)
    ctx.require("line+point:translated", R.proportional(ctx, lte, [le[0], le[1], le[2] - le[0] * ve[0] - le[1] * ve[1]]))


# ------------------------------------------------------------------ indexing (enumeration against an independent model)

def ref_index_types(shape, types, index):
    """independent model of numpy indexing on the axis-type list `types` ('c' covariant, 'n' contravariant, 'f' collection).
    returns list of result axis types, with inserted / advanced-index axes as 'f'."""
    if not isinstance(index, tuple):
        index = (index,)
    # expand bool arrays / lists to arrays, count consumed axes
    items = []
    for it in index:
        if isinstance(it, list):
            it = np.asarray(it)
        items.append(it)
    n_consumed = 0
    for it in items:
        if it is None or it is Ellipsis:
            continue
        if isinstance(it, np.ndarray) and it.dtype == bool:
            n_consumed += it.ndim
        else:
            n_consumed += 1
    if any(it is Ellipsis for it in items):
        k = [i for i, it in enumerate(items) if it is Ellipsis][0]
        items = items[:k] + [slice(None)] * (len(shape) - n_consumed) + items[k + 1:]
    else:
        items = items + [slice(None)] * (len(shape) - n_consumed)
    out = []          # (type or 'ADV')
    adv_positions = []
    adv_shapes = []
    ax = 0
    for it in items:
        if it is None:
            out.append("f")
        elif isinstance(it, slice):
            out.append(types[ax])
            ax += 1
        elif isinstance(it, (int, np.integer)) and not isinstance(it, (bool, np.bool_)):
            # integer participates in advanced indexing only if an array index is present (numpy rule); handled below
            out.append(("INT", ax))
            ax += 1
        else:
            arr = np.asarray(it)
            if arr.dtype == bool:
                adv_shapes.append((int(arr.sum()),) if arr.ndim >= 1 else ())
                out.append(("ADV", ax))
                ax += arr.ndim
            else:
                adv_shapes.append(arr.shape)
                out.append(("ADV", ax))
                ax += 1
    has_adv = any(isinstance(o, tuple) and o[0] == "ADV" for o in out)
    if not has_adv:
        return [o for o in out if not (isinstance(o, tuple) and o[0] == "INT")]
    # with advanced indices, scalar integers are advanced indices too
    adv_idx = [i for i, o in enumerate(out) if isinstance(o, tuple)]
    bshape = np.broadcast_shapes(*adv_shapes) if adv_shapes else ()
    contiguous = adv_idx == list(range(adv_idx[0], adv_idx[-1] + 1))
    rest = [o for o in out if not isinstance(o, tuple)]
    if contiguous:
        before = [o for o in out[:adv_idx[0]] if not isinstance(o, tuple)]
        after = [o for o in out[adv_idx[-1] + 1:] if not isinstance(o, tuple)]
        return before + ["f"] * len(bshape) + after
    return ["f"] * len(bshape) + rest


def _index_atoms(size, rnd):
    atoms = [0, size - 1, -1, slice(None), slice(0, 1), slice(None, None, -1), None, Ellipsis,
             np.array([0, size - 1]), np.array([[0], [size - 1]]), np.array([True] + [False] * (size - 1)), [size - 1, 0]]
    return atoms


def custom_indexing(tier, seed):
    from geometer.base import Tensor
    t0 = time.time()
    rnd = random.Random(seed)
    res = {"paths": 0, "forks": 0, "obligations": 0, "ob_total": 0, "violations": [], "inconclusive": [], "samples": [], "by_step": {"enumerated": 0},
           "outcomes": {}, "reach": {}, "validated": 0, "solver_time": 0.0}
    viol_seen = set()
    cases_ = []
    for rank in (1, 2, 3):
        size = 3 if rank < 3 else 2
        shape = (size,) * rank
        for types in itertools.product("cnf", repeat=rank):
            # collection axes must come first
            if "f" in types and list(types) != sorted(types, key=lambda x: 0 if x == "f" else 1):
                continue
            atoms = _index_atoms(size, rnd)
            for L in range(1, rank + 2):
                for combo in itertools.product(range(len(atoms)), repeat=L):
                    cases_.append((shape, types, combo))
    n_valid = 0
    for shape, types, combo in cases_:
        size = shape[0]
        atoms = _index_atoms(size, rnd)
        index = tuple(atoms[i] for i in combo)
        if sum(1 for it in index if it is Ellipsis) > 1:
            continue
        if any(isinstance(it, np.ndarray) and it.dtype == bool and it.ndim == len(shape) for it in index) and len(shape) > 1:
            pass
        arr = np.arange(int(np.prod(shape)), dtype=float).reshape(shape)
        try:
            expected_arr = arr[index if len(index) > 1 else index[0]]
        except (IndexError, ValueError):
            continue
        if not isinstance(expected_arr, np.ndarray):
            continue
        n_valid += 1
        cov = [i for i, t in enumerate(types) if t == "c"]
        nfree = sum(1 for t in types if t == "f")
        tr = len(shape) - nfree
        t = Tensor(arr, covariant=[i - nfree for i in cov], tensor_rank=tr)
        idx = index if len(index) > 1 else index[0]
        res["ob_total"] += 1
        try:
            r = t[idx]
        except Exception as e:
            key = ("exception", type(e).__name__)
            name = f"getitem-raises-{type(e).__name__}"
            if name not in viol_seen:
                viol_seen.add(name)
                res["violations"].append({"case": "indexing", "obligation": name, "env": {"shape": str(shape), "types": "".join(types), "index": repr(index)},
                                          "replay": {"failed": [name], "exception": str(e)[:200]}})
            continue
        exp_types = ref_index_types(shape, list(types), index)
        # validate the reference model against numpy: number of axes
        if len(exp_types) != expected_arr.ndim:
            res["inconclusive"].append({"case": "indexing", "obligation": "reference-model", "why": f"model rank mismatch for {index!r} on {shape}"})
            continue
        ok_vals = isinstance(r, Tensor) and r.array.shape == expected_arr.shape and np.array_equal(r.array, expected_arr)
        got_types = ["c" if a in r._covariant_indices else "n" if a in r._contravariant_indices else "f" for a in range(r.array.ndim)] if isinstance(r, Tensor) else None
        res["obligations"] += 1
        res["by_step"]["enumerated"] += 1
        if not ok_vals or got_types != exp_types:
            # classify by the shape of the index expression (kinds of atoms), so that a finding is identified by its call pattern
            kinds = tuple("int" if isinstance(it, (int, np.integer)) else "slice" if isinstance(it, slice) else "None" if it is None else "..." if it is Ellipsis
                          else ("bool%dd" % np.asarray(it).ndim if np.asarray(it).dtype == bool else "intarr%dd" % np.asarray(it).ndim) for it in index)
            name = "index-types:" + ",".join(kinds) if ok_vals else "values:" + ",".join(kinds)
            if name not in viol_seen:
                viol_seen.add(name)
                res["violations"].append({"case": "indexing", "obligation": name,
                                          "env": {"shape": str(shape), "types": "".join(types), "index": repr(index), "got": str(got_types), "expected": str(exp_types)},
                                          "replay": {"failed": [name]}})
        elif len(res["samples"]) < 6:
            res["samples"].append({"case": "indexing", "index": repr(index), "types": "".join(types), "result_types": "".join(exp_types)})
    res["paths"] = n_valid
    res["outcomes"] = {"valid-index-expressions": n_valid}
    res["wall"] = time.time() - t0
    return res


def custom_transpose(tier, seed):
    from geometer.base import Tensor, TensorCollection
    t0 = time.time()
    res = {"paths": 0, "forks": 0, "obligations": 0, "ob_total": 0, "violations": [], "inconclusive": [], "samples": [], "by_step": {"enumerated": 0},
           "outcomes": {}, "reach": {}, "validated": 0, "solver_time": 0.0}
    seen = set()

    def bad(name, env):
        if name not in seen:
            seen.add(name)
            res["violations"].append({"case": "transpose", "obligation": name, "env": env, "replay": {"failed": [name]}})
    for rank in (2, 3, 4):
        shape = tuple(range(2, 2 + rank))
        arr = np.arange(int(np.prod(shape)), dtype=float).reshape(shape)
        for ncov in range(rank + 1):
            for cov in itertools.combinations(range(rank), ncov):
                t = Tensor(arr, covariant=list(cov))
                for perm in itertools.permutations(range(rank)):
                    res["ob_total"] += 1
                    res["obligations"] += 1
                    res["by_step"]["enumerated"] += 1
                    r = t.transpose(perm)
                    exp = np.transpose(arr, perm)
                    exp_cov = sorted(i for i, j in enumerate(perm) if j in cov)
                    if not np.array_equal(r.array, exp):
                        bad(f"transpose-values:rank{rank}", {"perm": str(perm), "cov": str(cov)})
                    elif sorted(r._covariant_indices) != exp_cov or sorted(r._contravariant_indices) != sorted(set(range(rank)) - set(exp_cov)):
                        bad(f"transpose-index-types:rank{rank}", {"perm": str(perm), "cov": str(cov), "got": str(sorted(r._covariant_indices)), "expected": str(exp_cov)})
                # .T reverses
                r = t.T
                if not np.array_equal(r.array, arr.T) or sorted(r._covariant_indices) != sorted(rank - 1 - i for i in cov):
                    bad(f"T:rank{rank}", {"cov": str(cov)})
                # cycle notation: (i j k) means a[i] -> position j ...: compare with the full permutation it denotes
                for cyc in itertools.permutations(range(rank), min(3, rank)):
                    full = list(range(rank))
                    for k in range(len(cyc)):
                        full[cyc[k]] = cyc[(k + 1) % len(cyc)]
                    if len(cyc) == rank:
                        continue
                    r1, r2 = t.transpose(cyc), t.transpose(full)
                    res["obligations"] += 1
                    if not np.array_equal(r1.array, r2.array) or r1._covariant_indices != r2._covariant_indices:
                        bad(f"transpose-cycle-notation:rank{rank}", {"cycle": str(cyc)})
                # copy keeps everything, tensor_product orders covariant first
                c = t.copy()
                if c.array is not t.array or c._covariant_indices != t._covariant_indices:
                    bad("copy", {})
    # expand_dims on a collection
    arr = np.arange(24.).reshape(2, 3, 4)
    c = TensorCollection(arr, covariant=[0], tensor_rank=2)
    for axis in (0, 1, -3, -4):
        try:
            r = c.expand_dims(axis)
        except ValueError:
            continue
        exp = np.expand_dims(arr, axis)
        pos = axis if axis >= 0 else axis + arr.ndim + 1
        exp_cov = sorted(i + 1 if i >= pos else i for i in c._covariant_indices)
        res["obligations"] += 1
        if r.array.shape != exp.shape or sorted(r._covariant_indices) != exp_cov or r.free_indices != c.free_indices + 1:
            bad(f"expand_dims({axis})", {"got_shape": str(r.array.shape), "expected": str(exp.shape), "cov": str(sorted(r._covariant_indices))})
    res["paths"] = 1
    res["wall"] = time.time() - t0
    return res


def cases(tier, seed):
    return [
        Case("tensor_arith", case_tensor_arith),
        Case("point_arith_2d", mk_point_arith(2)),
        Case("point_arith_3d", mk_point_arith(3)),
        Case("quadric_line_arith", case_quadric_line_arith),
        Case("indexing", custom_indexing, kind="custom"),
        Case("transpose", custom_transpose, kind="custom"),
    ]
