"""C05 - tensor diagrams equal the Einstein sum they denote; epsilon / generalized delta are exact."""
from __future__ import annotations

import itertools
import random
import time

import numpy as np

from symgeo.driver import Case
from symgeo import refgeo as R

EVIDENCE = {
    "functions": ["base.TensorDiagram.add_node/add_edge/calculate/copy", "base.Tensor.__mul__/__rmul__/__pow__/tensor_product", "base.LeviCivitaTensor", "base.KroneckerDelta"],
    "bounds": "diagrams with <= 3 node objects of rank <= 3 (index dimension 2; 3 for rank <= 2; seven hand-written structures whose nodes have indices of different dimensions), contractions of epsilon(n) with itself for n <= 6 (constants), every covariant/contravariant pattern, edge sequences of length <= 4 "
              "including repeated edges between one pair, loops (an edge from a node to itself) and re-use of one node object; all array entries free reals; "
              "one collection axis on one node (thorough: both); epsilon(n) for n <= 4 (5 thorough), delta(n,p) for n <= 4, p <= 3 and both construction orders, "
              "index tuples symbolic (z3 Int) against a lookup table built by the real constructors",
    "outside": "diagrams with more than 3 nodes or rank > 3, n > 5, p > 3; structures are enumerated (a seeded subset in quick), values inside each structure are symbolic",
    "assumptions": ["np.einsum on object arrays is numpy's own code executed on symbolic scalars (not modelled)"],
}


# ------------------------------------------------------------------ reference semantics of a diagram

def reference(nodes, edges):
    """nodes: list of (array-as-nested-accessor, shape, cov_axes, con_axes); edges: list of (src, tgt) node indices.
    Returns ('error', None) or ('ok', (out_axes, value_fn)) following the documented rule:
    each edge pairs the first unused covariant index of its source with the first unused contravariant index of its target."""
    order = []
    for s, t in edges:
        for k in (s, t):
            if k not in order:
                order.append(k)
    unused = {k: (list(nodes[k]["cov"]), list(nodes[k]["con"])) for k in order}
    pairs = []
    for s, t in edges:
        if not unused[s][0] or not unused[t][1]:
            return "error", None
        i = unused[s][0].pop(0)
        j = unused[t][1].pop(0)
        if nodes[s]["shape"][i] != nodes[t]["shape"][j]:
            return "error", None
        pairs.append(((s, i), (t, j)))
    out = []
    for k in order:
        out += [(k, a) for a in unused[k][0]]
    ncov = len(out)
    for k in order:
        out += [(k, a) for a in unused[k][1]]
    return "ok", (order, pairs, out, ncov)


def ref_value(nodes, order, pairs, out, out_index):
    """entry of the contraction at out_index (tuple) by explicit summation"""
    # union-find over (node, axis) labels
    label = {}
    for k in order:
        for a in range(len(nodes[k]["shape"])):
            label[(k, a)] = (k, a)

    def find(x):
        while label[x] != x:
            x = label[x]
        return x
    for p, q in pairs:
        label[find(q)] = find(p)
    fixed = {}
    for pos, ka in enumerate(out):
        fixed[find(ka)] = out_index[pos]
    summed = sorted({find(ka) for ka in label} - set(fixed))
    dims = [nodes[s[0]]["shape"][s[1]] for s in summed]
    total = 0
    for vals in itertools.product(*[range(d) for d in dims]):
        asg = dict(fixed)
        asg.update(dict(zip(summed, vals)))
        term = 1
        for k in order:
            idx = tuple(asg[find((k, a))] for a in range(len(nodes[k]["shape"])))
            term = term * nodes[k]["elems"][idx]
        total = total + term
    return total


def run_structure(ctx, spec):
    from geometer.base import Tensor, TensorDiagram
    from geometer.exceptions import TensorComputationError
    nodes = []
    tensors = []
    for k, (shape, cov) in enumerate(spec["nodes"]):
        arr = ctx.reals(f"n{k}", *shape)
        t = Tensor(arr, covariant=list(cov))
        tensors.append(t)
        p = arr.plain if hasattr(arr, "plain") else arr
        con = [a for a in range(len(shape)) if a not in cov]
        nodes.append({"shape": shape, "cov": sorted(cov), "con": con, "elems": p})
    status, info = reference(nodes, spec["edges"])
    try:
        d = TensorDiagram(*[(tensors[s], tensors[t]) for s, t in spec["edges"]])
        res = d.calculate()
    except TensorComputationError:
        ctx.outcome("TensorComputationError")
        ctx.require("error-iff-reference-error", status == "error")
        return
    ctx.outcome("value")
    ctx.require("no-error-iff-reference-ok", status == "ok")
    if status != "ok":
        return
    order, pairs, out, ncov = info
    exp_shape = tuple(nodes[k]["shape"][a] for k, a in out)
    ctx.require("result-shape", tuple(res.shape) == exp_shape)
    ctx.require("tensor_shape", res.tensor_shape == (ncov, len(out) - ncov))
    ctx.require("index-types-covariant-first", sorted(res._covariant_indices) == list(range(ncov)))
    if tuple(res.shape) != exp_shape:
        return
    ra = res.array.plain if hasattr(res.array, "plain") else np.asarray(res.array)
    for oi in itertools.product(*[range(s) for s in exp_shape]):
        got = ra[oi] if exp_shape else (ra[()] if hasattr(ra, "shape") else ra)
        ctx.require(f"entry{list(oi)}", ctx.eq(got, ref_value(nodes, order, pairs, out, oi)))


def gen_structures(seed, n):
    rnd = random.Random(seed)
    out = []
    # hand-picked structures first (loops, repeated edges, node re-use, errors)
    base = [
        {"nodes": [((2, 2), (0,))], "edges": [(0, 0)]},                                  # trace: loop edge
        {"nodes": [((2, 2), (0,)), ((2,), (0,))], "edges": [(1, 0)]},
        {"nodes": [((2, 2), (0,)), ((2, 2), (0,))], "edges": [(0, 1), (1, 0)]},            # trace of a product
        {"nodes": [((2, 2), (0,)), ((2, 2), (0,))], "edges": [(0, 1), (0, 1)]},            # no index left -> error
        {"nodes": [((2, 2, 2), (0, 1)), ((2, 2), ())], "edges": [(0, 1), (0, 1)]},          # repeated edge between one pair
        {"nodes": [((3, 3), (0,)), ((2,), ())], "edges": [(0, 1)]},                        # dimension mismatch
        {"nodes": [((2, 2), (0,)), ((2, 2), (0,)), ((2,), (0,))], "edges": [(2, 0), (0, 1), (1, 1)]},
        {"nodes": [((2, 2, 2), (0,)), ((2, 2), (0, 1))], "edges": [(1, 0), (1, 0)]},
        {"nodes": [((2, 2), (0,)), ((2, 2), (1,))], "edges": [(0, 1)]},
        {"nodes": [((3, 3), (0,)), ((3, 3), (0, 1)), ((3,), ())], "edges": [(1, 0), (1, 2)]},
        # nodes whose indices have DIFFERENT dimensions (the dimension check must compare the two paired indices, not the last axes)
        {"nodes": [((2, 3), (0,)), ((2,), ())], "edges": [(0, 1)]},                        # valid: cov index (dim 2) with a contravariant 2-vector
        {"nodes": [((2, 3), (0,)), ((3,), (0,))], "edges": [(1, 0)]},                      # valid: covariant 3-vector with the contravariant index (dim 3)
        {"nodes": [((2, 3), (0,)), ((3,), ())], "edges": [(0, 1)]},                        # mismatch 2 / 3 -> error
        {"nodes": [((2, 3), (0,)), ((2,), (0,))], "edges": [(1, 0)]},                      # mismatch 2 / 3 -> error
        {"nodes": [((2, 3), (0,)), ((3, 2), (0,))], "edges": [(0, 1), (1, 0)]},            # trace of a 2x3 . 3x2 product
        {"nodes": [((3, 2), (0, 1)), ((3, 2), ())], "edges": [(0, 1), (0, 1)]},            # full contraction A_{ij} B^{ij}
        {"nodes": [((2, 3, 2), (0, 1)), ((3,), ()), ((2,), ())], "edges": [(0, 2), (0, 1)]},
    ]
    out += base
    while len(out) < n:
        k = rnd.choice([1, 2, 2, 3, 3])
        nodes = []
        for _ in range(k):
            rank = rnd.choice([1, 2, 2, 3])
            dim = 2 if rank == 3 or rnd.random() < 0.7 else 3
            cov = tuple(a for a in range(rank) if rnd.random() < 0.5)
            nodes.append(((dim,) * rank, cov))
        ne = rnd.choice([1, 2, 2, 3, 4])
        edges = [(rnd.randrange(k), rnd.randrange(k)) for _ in range(ne)]
        out.append({"nodes": nodes, "edges": edges})
    return out


def mk_structure(spec):
    def case(ctx):
        run_structure(ctx, spec)
    return case


def case_operators(ctx):
    """t*u, u*t with arrays, t**k, tensor_product, collection axis alignment"""
    from geometer.base import Tensor, TensorCollection
    a = ctx.reals("a", 2, 2)
    b = ctx.reals("b", 2)
    A = Tensor(a, covariant=[0])
    B = Tensor(b, covariant=False)          # contravariant vector
    Am, be = R.mat(a), R.elems(b)
    # A * B  == TensorDiagram((B, A))?  documented: t*u contracts an edge from u to t
    r = A * Tensor(b)                        # covariant vector contracts with A's contravariant index: sum_j A[i][j] b[j]
    for i in range(2):
        ctx.require(f"mul:matvec[{i}]", ctx.eq(R.elems(r.array)[i], Am[i][0] * be[0] + Am[i][1] * be[1]))
    ctx.require("mul:matvec-type", r.tensor_shape == (1, 0))
    P = A ** 3
    ref = R.matmul(Am, R.matmul(Am, Am))
    got = R.mat(P.array)
    for i in range(2):
        for j in range(2):
            ctx.require(f"pow3[{i}{j}]", ctx.eq(got[i][j], ref[i][j]))
    ctx.require("pow3-type", P.tensor_shape == (1, 1))
    tp = A.tensor_product(B)
    ctx.require("tensor_product-shape", tp.tensor_shape == (1, 2) and tuple(tp.shape) == (2, 2, 2))
    for i in range(2):
        for j in range(2):
            for k in range(2):
                ctx.require(f"tensor_product[{i}{j}{k}]", ctx.eq(tp.array[i, j, k], Am[i][j] * be[k]))
    # collection axis: 2 vectors against one matrix -> positionwise
    c = ctx.reals("c", 2, 2)
    C = TensorCollection(c, tensor_rank=1)
    rc = A * C
    ctx.require("collection-shape", tuple(rc.shape) == (2, 2) and rc.free_indices == 1 and rc.tensor_shape == (1, 0))
    Cm = R.mat(c)
    for p in range(2):
        for i in range(2):
            ctx.require(f"collection[{p}][{i}]", ctx.eq(rc.array[p, i], Am[i][0] * Cm[p][0] + Am[i][1] * Cm[p][1]))


# ------------------------------------------------------------------ epsilon / delta tables against their definitions (z3, symbolic index)

def _table_fn(arr, idx):
    """nested If lookup of concrete integer table arr at z3 index vector idx"""
    import z3
    def rec(sub, k):
        if k == len(idx):
            return z3.IntVal(int(sub))
        e = rec(sub[sub.shape[0] - 1], k + 1)
        for v in range(sub.shape[0] - 2, -1, -1):
            e = z3.If(idx[k] == v, rec(sub[v], k + 1), e)
        return e
    return rec(arr, 0)


def _eps_spec(idx):
    import z3
    n = len(idx)
    prod = z3.IntVal(1)
    for a in range(n):
        for b in range(a + 1, n):
            prod = prod * z3.If(idx[b] > idx[a], 1, z3.If(idx[b] < idx[a], -1, 0))
    return prod


def _delta_spec(mu, nu):
    """generalized Kronecker delta: sum over permutations sigma of sgn(sigma) prod_k [mu_sigma(k) == nu_k]"""
    import z3
    p = len(mu)
    tot = z3.IntVal(0)
    for sigma in itertools.permutations(range(p)):
        sg = R.perm_sign(sigma)
        term = z3.IntVal(sg)
        for k in range(p):
            term = term * z3.If(mu[sigma[k]] == nu[k], 1, 0)
        tot = tot + term
    return tot


def custom_eps_delta(tier, seed):
    import z3
    from geometer.base import LeviCivitaTensor, KroneckerDelta
    t0 = time.time()
    res = {"paths": 0, "forks": 0, "obligations": 0, "ob_total": 0, "violations": [], "inconclusive": [], "samples": [], "by_step": {"t0": 0},
           "outcomes": {}, "reach": {}, "validated": 0, "solver_time": 0.0}

    def check(name, arr, spec_fn, nidx, n, expect_shape):
        res["ob_total"] += 1
        res["obligations"] += 1
        if tuple(arr.shape) != tuple(expect_shape):
            res["violations"].append({"case": "eps_delta_tables", "obligation": name + ":shape", "env": {"shape": str(arr.shape), "expected": str(expect_shape)},
                                      "replay": {"failed": [name + ":shape"]}})
            return
        idx = [z3.Int(f"i{k}") for k in range(nidx)]
        s = z3.Solver()
        s.set("timeout", 120000)
        for v in idx:
            s.add(v >= 0, v < n)
        s.add(_table_fn(arr, idx) != spec_fn(idx))
        t = time.time()
        r = s.check()
        res["solver_time"] += time.time() - t
        if r == z3.unsat:
            res["by_step"]["t0"] += 1
            if len(res["samples"]) < 8:
                res["samples"].append({"case": "eps_delta_tables", "obligation": name, "verdict": "unsat: table == definition for every index tuple (z3, symbolic index)"})
        elif r == z3.sat:
            m = s.model()
            env = {str(v): str(m.eval(v, model_completion=True)) for v in idx}
            tup = tuple(int(env[str(v)]) for v in idx)
            res["violations"].append({"case": "eps_delta_tables", "obligation": name, "env": env, "replay": {"failed": [name], "entry": int(arr[tup])}})
        else:
            res["inconclusive"].append({"case": "eps_delta_tables", "obligation": name, "why": "solver unknown"})

    nmax = 4 if tier == "quick" else 5
    for n in range(2, nmax + 1):
        for cov in (True, False):
            e = LeviCivitaTensor(n, cov)
            check(f"epsilon({n},cov={cov})", np.asarray(e.array), _eps_spec, n, n, (n,) * n)
            res["ob_total"] += 1
            res["obligations"] += 1
            if e.tensor_shape != ((n, 0) if cov else (0, n)) or e.array.dtype.kind not in "iu":
                res["violations"].append({"case": "eps_delta_tables", "obligation": f"epsilon({n}):type", "env": {}, "replay": {"failed": ["type"]}})
    # delta(n, p) in two construction orders (a cache keyed inconsistently shows up only across constructions)
    combos = [(n, p) for n in (2, 3, 4) for p in (1, 2, 3) if (2 * p <= 6 or n <= 3) and not (tier == "quick" and n == 4 and p == 3)]
    for order_name, order in (("asc", combos), ("desc", list(reversed(combos))), ("swapped-pairs", [(p, n) for n, p in combos if p >= 2] + combos)):
        for n, p in order:
            if n < 2:
                continue
            d = KroneckerDelta(n, p)
            check(f"delta(n={n},p={p})[{order_name}]", np.asarray(d.array), lambda idx, p=p: _delta_spec(idx[:p], idx[p:]), 2 * p, n, (n,) * (2 * p))
            res["ob_total"] += 1
            res["obligations"] += 1
            if d.tensor_shape != (p, p):
                res["violations"].append({"case": "eps_delta_tables", "obligation": f"delta({n},{p}):type", "env": {}, "replay": {"failed": ["type"]}})
    res["paths"] = 1
    res["outcomes"] = {"tables": res["obligations"]}
    res["wall"] = time.time() - t0
    return res


def custom_eps_contractions(tier, seed):
    """concrete (no free values: the tensors are constants): diagrams that contract epsilon(n) with itself.  Full contraction = n!, contraction over
    n-1 index pairs = (n-1)! * delta -- evaluated through TensorDiagram.calculate for every size up to 6 (integer dtype of the tables matters here)"""
    import math
    from geometer.base import LeviCivitaTensor, TensorDiagram
    t0 = time.time()
    res = {"paths": 0, "forks": 0, "obligations": 0, "ob_total": 0, "violations": [], "inconclusive": [], "samples": [], "by_step": {"evaluated": 0},
           "outcomes": {}, "reach": {}, "validated": 0, "solver_time": 0.0}
    for n in range(2, 7):
        e1, e2 = LeviCivitaTensor(n), LeviCivitaTensor(n, False)
        for k, name in ((n, "full-contraction=n!"), (n - 1, "contraction-over-n-1-pairs=(n-1)!*delta")):
            res["ob_total"] += 1
            res["obligations"] += 1
            res["by_step"]["evaluated"] += 1
            res["paths"] += 1
            try:
                r = np.asarray(TensorDiagram(*[(e1, e2) for _ in range(k)]).calculate().array)
                ref = np.array(math.factorial(n)) if k == n else math.factorial(n - 1) * np.eye(n, dtype=int)
                ok = r.shape == ref.shape and bool(np.all(r.astype(object) == ref.astype(object)))
            except Exception as ex:
                ok = False
            if not ok:
                ob = f"eps({n}):{name}"
                res["violations"].append({"case": "eps_contractions", "obligation": ob, "env": {"n": str(n)}, "replay": {"failed": [ob]}})
    res["wall"] = time.time() - t0
    return res


def cases(tier, seed):
    cs = [Case("eps_delta_tables", custom_eps_delta, kind="custom"), Case("eps_contractions", custom_eps_contractions, kind="custom"), Case("operators", case_operators)]
    n = 60 if tier == "quick" else 600
    for i, spec in enumerate(gen_structures(seed, n)):
        cs.append(Case(f"diagram_{i:03d}", mk_structure(spec)))
    return cs
