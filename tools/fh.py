"""debug helper: run one case, dump the Python stack after N seconds (tools/fh.py <pid> <case> <seconds> [tier])"""
import sys, faulthandler
sys.path.insert(0, '/verif')
faulthandler.dump_traceback_later(int(sys.argv[3]), exit=True)
from symgeo import loader; loader.install()
import importlib
tier = sys.argv[4] if len(sys.argv) > 4 else 'quick'
m = importlib.import_module('harness.' + sys.argv[1])
c = [c for c in m.cases(tier, 0) if c.name == sys.argv[2]][0]
from symgeo.explore import run_case
if c.setup:
    c.setup()
r = run_case(c.name, c.fn, tier=tier, max_paths=c.max_paths)
print(r.outcomes, 'obligations', r.obligations, r.by_step, 'inconclusive', r.inconclusive[:3], 'viol', [(v['obligation'], v['env']) for v in r.violations[:3]],
      'unsup', r.unsupported[:2], 'unconf', [(u['obligation'], (u.get('note') or '')[-600:]) for u in r.unconfirmed[:2]], 'wall', round(r.wall, 1))
