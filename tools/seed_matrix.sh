#!/bin/sh
# applies every seeded change in turn, runs the quick check of its property (plus extra properties given in seeded/<id>/also), undoes it;
# appends to seeded/RESULTS.txt.   usage: seed_matrix.sh [glob of ids, default 'C*']
# The change is applied to a scratch worktree of /repo outside /repo and /verif (checks read it through GEOMETER_REPO), so /repo itself stays untouched;
# the worktree is removed at the end.
cd /verif
PAT="${1:-C*}"
WT=/tmp/seed_matrix_wt_$$
git -C /repo worktree add -q --detach "$WT" HEAD || exit 9
export GEOMETER_REPO="$WT"
[ "$PAT" = "C*" ] && : > seeded/RESULTS.txt
for d in seeded/$PAT/; do
  id=$(basename $d); pid=$(echo $id | cut -c1-3)
  props="$pid"
  [ -f $d/also ] && props="$props $(cat $d/also)"
  if ! git -C "$WT" apply --check /verif/$d/patch.diff 2>/dev/null; then echo "$id: PATCH-DOES-NOT-APPLY" >> seeded/RESULTS.txt; continue; fi
  git -C "$WT" apply /verif/$d/patch.diff
  for p in $props; do
    out=$(./check $p --no-evidence --case-timeout 240 --jobs ${SEED_JOBS:-16} 2>&1)
    code=$?
    nv=$(echo "$out" | grep -c "^VIOLATION")
    first=$(echo "$out" | grep "^VIOLATION" | head -1 | sed 's/.*replays\///')
    echo "$id: check=$p exit=$code violations=$nv first=$first" >> seeded/RESULTS.txt
  done
  git -C "$WT" checkout -- .
done
git -C /repo worktree remove --force "$WT"
echo "DONE $PAT" >> seeded/RESULTS.txt
