#!/bin/sh
# applies every seeded change to /repo in turn, runs the quick check of its property (plus extra properties given in seeded/<id>/also), undoes it; writes seeded/RESULTS.txt
cd /verif
: > seeded/RESULTS.txt
for d in seeded/C*/; do
  id=$(basename $d); pid=$(echo $id | cut -c1-3)
  props="$pid"
  [ -f $d/also ] && props="$props $(cat $d/also)"
  if ! git -C /repo apply --check /verif/$d/patch.diff 2>/dev/null; then echo "$id: PATCH-DOES-NOT-APPLY" >> seeded/RESULTS.txt; continue; fi
  git -C /repo apply /verif/$d/patch.diff
  for p in $props; do
    out=$(./check $p --no-evidence --case-timeout 240 2>&1)
    code=$?
    nv=$(echo "$out" | grep -c "^VIOLATION")
    first=$(echo "$out" | grep "^VIOLATION" | head -1 | sed 's/.*replays\///')
    echo "$id: check=$p exit=$code violations=$nv first=$first" >> seeded/RESULTS.txt
  done
  git -C /repo checkout -- .
done
git -C /repo status --short >> seeded/RESULTS.txt
echo DONE >> seeded/RESULTS.txt
