#!/bin/sh
# run the quick tier of every claimed check sequentially; prints one verdict line per property
cd /verif
for p in $(python3 -c "import json; print(' '.join(c['property_id'] for c in json.load(open('MANIFEST.json'))['checks']))"); do
  t0=$(date +%s)
  out=$(./check $p --tier ${1:-quick} 2>&1)
  code=$?
  echo "$p exit=$code $(echo "$out" | tail -1)"
  echo "$out" | grep -E "VIOLATION|INCONCL|UNSUPP|UNCONF|HARNESS|ERROR" | head -5
done
