#!/bin/sh
# run checks against a seeded change applied to /repo, then undo it.  usage: try_seed.sh <patch.diff> <pid> [extra check args]
P="$1"; shift; PID="$1"; shift
git -C /repo apply "$P" || exit 9
cd /verif; ./check "$PID" --no-evidence "$@" 2>&1 | grep -E "VIOLATION|KNOWN|INCONCL|UNSUPP|UNCONF|HARNESS|ERROR|^\[" | cut -c1-260 | head -20
git -C /repo checkout -- .
