"""claimed properties (merged into tools/gen_manifest.py)"""
CLAIMED = {
    "C05": "DESIGN 4/C05", "C12": "DESIGN 4/C12", "C19": "DESIGN 4/C19",
}
EXTRA = {
    "C19": {"technique": "arithmetic: symbolic execution + SMT per path; index/transposition bookkeeping: exhaustive enumeration of a bounded index grammar against an independent axis-tracking model (no value quantifier there, stated in DESIGN 4/C19)"},
    "C05": {"technique": "symbolic execution of the real diagram evaluation with symbolic tensor entries vs explicit Einstein sums (SMT/normal form per entry) over an enumerated family of diagram structures; epsilon/delta tables vs definitions with a symbolic index tuple (z3)"},
}
NOT_APPLICABLE = {}
CLAIMED.update({"C16": "DESIGN 4/C16", "C18": "DESIGN 4/C18"})
EXTRA.update({
    "C16": {"technique": "symbolic execution + SMT: parametrised segments / symbolic triangles with all coordinates free; polygons: enumerated lattice polygons (bound on the polygon) x free real query point decided by z3 against a crossing-number oracle"},
    "C18": {"technique": "symbolic execution + SMT: one operand free reals, the other from an enumerated lattice family (segments/lines both free where the solver decides it); soundness, completeness per edge and duplicate freedom per path; 3-D polygon x segment with a free-height, free-weight end point"},
})
CLAIMED.update({"C03": "DESIGN 4/C03"})
CLAIMED.update({"C04": "DESIGN 4/C04"})
CLAIMED.update({"C09": "DESIGN 4/C09"})
CLAIMED.update({"C10": "DESIGN 4/C10"})
CLAIMED.update({"C17": "DESIGN 4/C17"})
CLAIMED.update({"C14": "DESIGN 4/C14"})
CLAIMED.update({"C15": "DESIGN 4/C15"})
CLAIMED.update({"C13": "DESIGN 4/C13"})
CLAIMED.update({"C08": "DESIGN 4/C08"})
_BASE = "symbolic execution of the real Python code over a symbolic numpy layer + SMT (z3 QF_NRA / linear abstraction) per path, counterexample replay"
EXTRA.update({
    "C09": {"technique": _BASE + "; 3-D point-polytope and plane-plane distances only by supplementary concrete lattice evaluation against a numpy oracle (labelled in the evidence, not a solver verdict)"},
    "C13": {"technique": _BASE + "; constructors with lattice data and one free real parameter where the fully symbolic query is undecided (from_tangent, from_crossratio); cones / cylinders and from_foci only by supplementary concrete lattice sweeps (labelled, not a solver verdict)"},
    "C14": {"technique": _BASE + "; 3-D quadric collections and duals of every quadric class by supplementary concrete cases (labelled, not a solver verdict)"},
    "C15": {"technique": _BASE + "; sign patterns of line / plane pairs additionally enumerated concretely, conic x conic only by supplementary concrete pencils (labelled, not a solver verdict)"},
})
