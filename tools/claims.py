"""claimed properties (merged into tools/gen_manifest.py)"""
CLAIMED = {
    "C05": "DESIGN 4/C05", "C12": "DESIGN 4/C12", "C19": "DESIGN 4/C19",
}
EXTRA = {
    "C19": {"technique": "arithmetic: symbolic execution + SMT per path; index/transposition bookkeeping: exhaustive enumeration of a bounded index grammar against an independent axis-tracking model (no value quantifier there, stated in DESIGN 4/C19)"},
    "C05": {"technique": "symbolic execution of the real diagram evaluation with symbolic tensor entries vs explicit Einstein sums (SMT/normal form per entry) over an enumerated family of diagram structures; epsilon/delta tables vs definitions with a symbolic index tuple (z3)"},
}
NOT_APPLICABLE = {}
