#!/bin/sh
# confirm a seeded change: tests pass with it, demo fails with it, demo passes without it.  usage: confirm_seed.sh <dir with patch.diff demo.py>
D="$1"; WT=/tmp/confirm_wt_$$
git -C /repo worktree add -q --detach "$WT" HEAD || exit 9
cd "$WT"
R=0
if ! git apply --check "$D/patch.diff" 2>/dev/null; then echo "apply_check=FAIL"; R=1; else
git apply "$D/patch.diff"
T=$(/venv/bin/python -m pytest -q -p no:cacheprovider tests 2>&1 | tail -1)
echo "tests_with_patch: $T"
/venv/bin/python "$D/demo.py" >/dev/null 2>&1; echo "demo_with_patch_exit=$?"
git checkout -q -- . ; git clean -fdq
/venv/bin/python "$D/demo.py" >/dev/null 2>&1; echo "demo_pristine_exit=$?"
fi
cd /; git -C /repo worktree remove --force "$WT"
exit $R
