#!/usr/bin/env python3
"""regenerates /verif/MANIFEST.json from the list of claimed properties below"""
import json
import os

V = os.path.dirname(os.path.dirname(os.path.abspath(__file__)))

LEVEL_TEXT = ("bounded symbolic execution of the real geometer code: the unmodified modules are imported from /repo on every run and executed on "
              "object arrays of exact symbolic scalars (free reals; shapes bounded, values unbounded); every explored path's obligations are decided "
              "by z3 (normal form, linear abstraction with zero-product axioms, QF_NRA; cvc5 cross-check in the thorough tier); satisfiable "
              "obligations are replayed on the plain library with plain numpy before a VIOLATION is printed")
NOTE = ("exact real arithmetic (floating-point rounding outside the claim), tolerances idealised to 0, numpy value-level primitives modelled and "
        "LAPACK calls replaced by contract stubs (DESIGN 2.4/2.5); shape bounds and what lies outside are listed in the evidence file")

CLAIMED = {
    "C01": "DESIGN 4/C01", "C02": "DESIGN 4/C02", "C06": "DESIGN 4/C06", "C07": "DESIGN 4/C07", "C11": "DESIGN 4/C11", "C20": "DESIGN 4/C20",
}
EXTRA = {}
NOT_APPLICABLE = {}


def main():
    props = [json.loads(l) for l in open(os.path.join(V, "properties.jsonl"))]
    try:
        import importlib.util
        spec = importlib.util.spec_from_file_location("claims", os.path.join(V, "tools", "claims.py"))
        m = importlib.util.module_from_spec(spec)
        spec.loader.exec_module(m)
        CLAIMED.update(getattr(m, "CLAIMED", {}))
        EXTRA.update(getattr(m, "EXTRA", {}))
        NOT_APPLICABLE.update(getattr(m, "NOT_APPLICABLE", {}))
    except FileNotFoundError:
        pass
    checks = []
    for p in props:
        pid = p["id"]
        if pid not in CLAIMED:
            continue
        ex = EXTRA.get(pid, {})
        checks.append({
            "property_id": pid,
            "quick_cmd": f"./check {pid} --tier quick",
            "thorough_cmd": f"./check {pid} --tier thorough",
            "evidence_file": f"/verif/evidence/{pid}.json",
            "replay_cmd_template": f"./check {pid} --replay {{path}}",
            "engine": "symgeo",
            "level_claimed": {"category": "model_checking", "text": ex.get("text", LEVEL_TEXT), "design_ref": CLAIMED[pid]},
            "level_note": ex.get("note", NOTE),
            "technique": ex.get("technique", "symbolic execution of the real Python code over a symbolic numpy layer + SMT (z3 QF_NRA / linear abstraction) per path, counterexample replay"),
        })
    m = {
        "version": 1,
        "setup_cmd": "sh /verif/setup.sh",
        "hooks": {"guard": "GEOMETER_VERIF", "enable": "no source hooks: geometer is imported unmodified from /repo; the symbolic numpy proxy is installed in the checking process only",
                  "baseline_off_cmd": "cd /repo && /venv/bin/python -m pytest -q -p no:cacheprovider tests", "source_commits": [], "add_only": True},
        "engines": [{"name": "symgeo", "path": "/verif/symgeo", "serves_properties": sorted(CLAIMED),
                     "kind_free_text": "symbolic executor for numpy-based Python (exact algebraic scalars in object ndarrays, NEP-13/18 dispatch, path exploration by re-execution) + z3/cvc5"}],
        "checks": checks,
        "not_applicable": [{"property_id": p["id"], "reason": NOT_APPLICABLE.get(p["id"], "check not built yet in this session (plan: DESIGN.md section 4)")}
                           for p in props if p["id"] not in CLAIMED],
        "notes": "exit codes of ./check: 0 held, 1 violation (VIOLATION line, replayed), 2 inconclusive, 3 harness error; see DESIGN.md",
    }
    json.dump(m, open(os.path.join(V, "MANIFEST.json"), "w"), indent=1)
    print("claimed:", sorted(CLAIMED))


if __name__ == "__main__":
    main()
