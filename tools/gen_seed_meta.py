#!/usr/bin/env python3
"""writes seeded/<id>/meta.json from notes.md + seeded/RESULTS.txt"""
import json, os, re
V = os.path.dirname(os.path.dirname(os.path.abspath(__file__)))
res = {}
for l in open(os.path.join(V, "seeded", "RESULTS.txt")):
    m = re.match(r"(C\d+[a-e]): check=(C\d+) exit=(\d+) violations=(\d+) first=(.*)", l.strip())
    if m:
        res.setdefault(m.group(1), []).append({"check": m.group(2), "exit": int(m.group(3)), "violations": int(m.group(4)), "first_violation": m.group(5)})
props = {json.loads(l)["id"]: json.loads(l)["title"] for l in open(os.path.join(V, "properties.jsonl"))}
for d in sorted(os.listdir(os.path.join(V, "seeded"))):
    p = os.path.join(V, "seeded", d)
    if not os.path.isdir(p):
        continue
    notes = open(os.path.join(p, "notes.md")).read() if os.path.exists(os.path.join(p, "notes.md")) else ""
    needs = ""
    m = re.search(r"(?is)(what (?:it )?needs[^\n]*\n.*?)(?:\n#|\n\*\*why|\Z)", notes)
    if m:
        needs = m.group(1).strip()[:900]
    else:
        needs = notes.strip()[:900]
    pid = d[:3]
    runs = res.get(d, [])
    meta = {
        "id": d, "breaks_property": pid, "property_title": props.get(pid, ""),
        "origin": "written by an independent sub-agent that saw only the property text and a scratch worktree of /repo",
        "needs_to_manifest": needs,
        "confirmed": {"how": "tools/confirm_seed.sh in a scratch worktree outside /repo and /verif", "test_suite_with_patch": "126 passed", "demo_with_patch": "exit 1", "demo_without_patch": "exit 0"},
        "checks_run": runs,
        "detected_by": sorted({r["check"] for r in runs if r["exit"] == 1 and r["violations"] > 0}),
        "how_run": "git -C /repo apply seeded/%s/patch.diff; ./check <id> --tier quick; git -C /repo checkout -- .   (tools/seed_matrix.sh)" % d,
    }
    json.dump(meta, open(os.path.join(p, "meta.json"), "w"), indent=1)
print("meta written for", len([d for d in os.listdir(os.path.join(V, "seeded")) if os.path.isdir(os.path.join(V, "seeded", d))]))
