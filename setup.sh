#!/bin/sh
# Build the overlay interpreter used by every check: /venv (repo's own env, untouched)
# + z3-solver / cvc5 / crosshair-tool from the offline wheelhouse.  Idempotent, offline.
set -e
cd "$(dirname "$0")"
V=/verif/.venv
if [ ! -x "$V/bin/python" ] || ! "$V/bin/python" -c "import z3, numpy, geometer" >/dev/null 2>&1; then
  rm -rf "$V"
  /venv/bin/python -m venv "$V"
  SP=$("$V/bin/python" -c "import sysconfig; print(sysconfig.get_paths()['purelib'])")
  printf '/venv/lib/python3.12/site-packages\n/repo\n' > "$SP/_overlay.pth"
  PIP_NO_INDEX=1 "$V/bin/pip" install -q --no-index --find-links /opt/veriftools/wheels z3-solver || exit 1
  PIP_NO_INDEX=1 "$V/bin/pip" install -q --no-index --find-links /opt/veriftools/wheels cvc5 || echo "setup: cvc5 wheel not installed (optional)"
  PIP_NO_INDEX=1 "$V/bin/pip" install -q --no-index --find-links /opt/veriftools/wheels crosshair-tool || echo "setup: crosshair not installed (optional)"
fi
"$V/bin/python" -c "import z3, numpy, geometer; print('setup ok: z3', z3.get_version_string(), 'numpy', numpy.__version__, 'geometer from', geometer.__file__)"
